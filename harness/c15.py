"""C15 — version order and version-driven rescheduling: correspondence + monitor.

Real code driven
  * `dawgie.Version.__eq__ … __ne__`, `newer`, `asstring` on real objects (subclasses of
    dawgie.Version that keep `_version_`, and one that overrides `_get_ver/_set_ver`);
  * `dawgie.pl.version.current`, `dawgie.pl.version.persistent`, `dawgie.pl.version.record`,
    `dawgie.pl.schedule.build` (with `_diff`, `_is_asp`, `organize`), `dawgie.pl.dag.Construct`,
    `dawgie.pl.scan.for_factories`, `dawgie.db.targets/versions`, and in the `shelve` stream the
    real `dawgie.db.shelve.versions/targets/update` on a real on-disk shelve database.
Algorithm engines are real packages written to a temp directory from an abstract descriptor
(both the factory-function pattern and the class-registry pattern of `dawgie.base.Factories`).
Versions live in a table of the package (`<pkg>.VERS`) that the classes read when instantiated,
so a "software update" is a change of that table followed by a re-`current()`.

Monitor (independent of the Lean model): the property itself computed from the descriptor, the
version table and the persisted tables.  Correspondence: the same inputs through the Lean model
`Build.build` / the generated `Version` functions via `lean/Driver/C15.lean`."""
import importlib
import itertools
import json
import logging
import os
import shutil
import sys
import tempfile
import types
import warnings

from . import common

LEAN_TARGETS = ['DawgieVerif.Model.BuildIO']

MANIFEST = dict(
    text='Lean theorems (all integer triples, no bound) over the comparison operators of dawgie.Version and '
         'Version.newer as TRANSLATED from the working tree on every run: __le__ is exactly the lexicographic '
         'order (vle_lex, vlt_lex), total/transitive/antisymmetric (vle_total, vle_trans, vle_antisymm), __eq__ is '
         'equality of triples, and all six operators and newer are mutually consistent (vne_eq_not_veq, '
         'vge_eq_vle_swap, vgt_eq, vlt_eq, vlt_eq_not_vge, vgt_eq_not_vle, vgt_eq_vlt_swap, trichotomy, '
         'newer_eq_vgt).  Lean theorems over a hand model of schedule._diff/build (+ the reached part of '
         'organize, fifo.Unique) with the table indices, owner-prefix length, all-targets marker and _is_asp kind '
         'regenerated from the source: diff_exact, build_error_iff, build_exact (a node is in the queue with t in '
         'its todo iff its own current version or that of one of its state vectors or values is not among the '
         'persisted versions and t is a known target — exactly the marker __all__ for an analysis; the queue holds '
         'exactly those changed nodes that have something to do; every other todo is empty; no duplicates), '
         'nothing_new_nothing_scheduled, bump_reschedules_exactly_owner — for every engine, every persisted '
         'table, every bump.  The model is tied to the real pl.version.current / persistent / schedule.build '
         '(and the real shelve versions()/update()) by a correspondence run on generated engines on every check, '
         'including reload histories where the real next_job_batch/complete leave units executing with targets still '
         'owed when the next build comes (every queue entry, also one that is not a node of the new graph, must be '
         'due), '
         'the generated Version functions by an exhaustive grid [0,3]^3 x [0,3]^3 plus large random triples '
         'against real dawgie.Version objects.',
    note='Trusted: Lean kernel; axioms propext/Classical.choice/Quot.sound only; tools/gen_c15.py; the harness '
         '(engine writer, fake db backend, canonicalisation as sorted sets). Modelled rather than verified: only '
         'the scheduling decision of build (which nodes are queued, their todo, incl. the _prune of empty entries '
         'at the end of organize); DAG construction (C09), que order/level, status/runid/event, promote wiring and '
         'periodics are not. Names are component lists: '
         'task/algorithm/state-vector/value names contain no "." (the architecture reserves it). Version strings '
         'are opaque in the build model; asstring() == "d.i.b" is checked on the grid only. Read: "algorithm" = '
         'node of the algorithm tree, i.e. an algorithm with at least one value; a state vector without values '
         'has nothing that can be persisted and is ignored (as pl.version.current does). With no known targets a '
         'non-analysis node has nothing to be scheduled for; whether it sits in the queue with an empty todo is '
         'C04 (the monitor accepts both, the model follows the code: pruned).',
    technique='Lean 4 proof (decision logic stated outright; grind over the translated boolean/linear-integer '
              'expressions; membership lemmas for _diff/Unique) + translator + differential correspondence',
    design='7/C15',
)

TRUSTED = [
    'task, algorithm, state-vector and value names contain no "." (split/join at "." is modelled as component lists)',
    'version strings are opaque tokens in the build model; Version.asstring() == "design.impl.bugfix" is checked on the grid, not proved',
    'dag.Construct.graph replaced by a version that still walks the tree (level) but does not render SVG',
    'fake db backend module (versions()/targets()) in the table stream; real on-disk shelve database in the shelve stream',
    'an algorithm without any value is not a node of the algorithm tree and a state vector without values is not versioned (pl.version.current / dag.Construct)',
]

OPNAMES = ['eq', 'ge', 'gt', 'le', 'lt', 'ne', 'newer']
KINDS = ('task', 'analysis', 'regress')


# =====================================================================  part (a): Version
def _version_classes():
    import dawgie

    class Plain(dawgie.Version):
        """what dawgie.Algorithm / StateVector / Value implementations do"""

        def __init__(self, d, i, b):
            self._version_ = dawgie.VERSION(d, i, b)

    class Custom(dawgie.Version):
        """overrides the accessors, as the doc string of dawgie.Version allows"""

        def __init__(self, d, i, b):
            self._set_ver(dawgie.VERSION(d, i, b))

        def _get_ver(self):
            return self.__dict__['somewhere_else']

        def _set_ver(self, ver):
            self.__dict__['somewhere_else'] = ver

    return Plain, Custom


def real_ops(cls_a, cls_b, a, b):
    import dawgie

    x, y = cls_a(*a), cls_b(*b)
    return [x == y, x >= y, x > y, x <= y, x < y, x != y, x.newer(dawgie.VERSION(*b))], x.asstring()


def spec_ops(a, b):
    a, b = tuple(a), tuple(b)
    return [a == b, a >= b, a > b, a <= b, a < b, a != b, a > b]


def check_pair(res, classes, a, b, lines, pending, tag):
    """monitor on the real operators; queue the pair for the generated Lean functions"""
    got = None
    for ca, cb in classes:
        try:
            ops, s = real_ops(ca, cb, a, b)
        except Exception as e:  # pylint: disable=broad-except
            res.hit('C15:order:raises', f'Version comparison of {a} with {b} raised {type(e).__name__}: {e}',
                    {'kind': 'version', 'a': list(a), 'b': list(b)})
            return
        want = spec_ops(a, b)
        for name, g, w in zip(OPNAMES, ops, want):
            if g is not w:
                res.hit(f'C15:order:{name}',
                        f'Version{tuple(a)} {name} Version{tuple(b)} returned {g!r}; the lexicographic order on '
                        f'(design, implementation, bugfix) gives {w!r}',
                        {'kind': 'version', 'a': list(a), 'b': list(b)})
        if s != '.'.join(str(c) for c in a):
            res.hit('C15:asstring', f'Version{tuple(a)}.asstring() returned {s!r}',
                    {'kind': 'version', 'a': list(a), 'b': list(b)})
        if got is None:
            got = ops
        elif got != ops:
            res.hit('C15:order:accessors', f'operators disagree between _version_ and _get_ver implementations on {a} {b}',
                    {'kind': 'version', 'a': list(a), 'b': list(b)})
    lines.append(common.sx(['ver', list(a), list(b)]))
    pending.append(('ver', (tuple(a), tuple(b)), got))
    res.case(('ver', tuple(a), tuple(b)), nontrivial=tuple(a) != tuple(b),
             sample=({'a': list(a), 'b': list(b), 'ops': dict(zip(OPNAMES, got))}
                     if tag == 'random' and len(res.samples) < 2 else None))
    res.count('version:' + tag)


def run_versions(ctx, res, r, lines, pending, level):
    plain, custom = _version_classes()
    classes = [(plain, plain), (custom, plain)]
    hi = 4
    for a in itertools.product(range(hi), repeat=3):
        for b in itertools.product(range(hi), repeat=3):
            check_pair(res, classes, a, b, lines, pending, 'grid')
    n = (600, 4000, 20000)[level]
    big = [0, 1, 2, 9, 10, 11, 99, 100, 2 ** 31 - 1, 2 ** 31, 2 ** 63 - 1, 2 ** 63, 2 ** 64 + 1, 10 ** 30]
    for _ in range(n):
        mode = r.random()
        if mode < 0.4:
            a = [r.choice(big) for _ in range(3)]
            b = [r.choice(big) for _ in range(3)]
        elif mode < 0.8:  # differ in exactly one late component
            a = [r.choice(big) for _ in range(3)]
            b = list(a)
            k = r.randrange(3)
            b[k] = max(0, b[k] + r.choice([-1, 1, 1, 7]))
            if r.random() < 0.5:  # and an opposite difference further right
                for j in range(k + 1, 3):
                    b[j], a[j] = a[j] + r.choice([0, 5]), b[j]
        else:
            a = [r.randrange(0, 10 ** r.randrange(1, 25)) for _ in range(3)]
            b = [r.randrange(0, 10 ** r.randrange(1, 25)) for _ in range(3)]
        check_pair(res, classes, a, b, lines, pending, 'random')


# =====================================================================  part (b): engines on disk
ROOT_SRC = '''"""synthetic algorithm engine written by /verif/harness/c15.py"""
import dawgie

VERS = {}


class Val(dawgie.Value):
    def __init__(self, path=None):
        dawgie.Value.__init__(self)
        self._path = path
        self._version_ = dawgie.VERSION(*VERS.get(path, (1, 0, 0)))

    def features(self):
        return []


class SV(dawgie.StateVector):
    def __init__(self, path, name, keys):
        dawgie.StateVector.__init__(self)
        self._n = name
        for k in keys:
            self[k] = Val(path + '.' + k)
        self._version_ = dawgie.VERSION(*VERS[path])

    def name(self):
        return self._n

    def view(self, caller, visitor):
        return
'''

BASES = {'task': ('Algorithm', 'previous', 'def run(self, ds, ps):'),
         'analysis': ('Analyzer', 'traits', 'def run(self, aspects):'),
         'regress': ('Regression', 'variables', 'def run(self, ps, timeline):')}
BOTS = {'task': ('Task', 'prefix, ps_hint=0, runid=-1, target="__none__"', 'prefix, ps_hint, runid, target'),
        'analysis': ('Analysis', 'prefix, ps_hint=0, runid=-1', 'prefix, ps_hint, runid'),
        'regress': ('Regress', 'prefix, ps_hint=0, target="__none__"', 'prefix, ps_hint, target')}
PLACEHOLDER = {'task': ('prefix: str, ps_hint: int = 0, runid: int = -1, target: str = "__none__"', 'dawgie.base.Task'),
               'analysis': ('prefix: str, ps_hint: int = 0, runid: int = -1', 'dawgie.base.Analysis'),
               'regress': ('prefix: str, ps_hint: int = 0, target: str = "__none__"', 'dawgie.base.Regress'),
               'events': ('', 'list[dawgie.EVENT]')}


def alg_tag(alg):
    return alg['task'] + '.' + alg['name']


def cls_name(alg):
    return 'C_' + alg['name']


def task_source(pkg, spec, tname):
    algs = [a for a in spec['algs'] if a['task'] == tname]
    out = [f'"""task package {tname}"""', 'import dawgie', 'import dawgie.base', f'import {pkg}', '']
    for a in algs:
        base, depfn, runsig = BASES[a['kind']]
        out.append(f'class {cls_name(a)}(dawgie.{base}):')
        out.append('    def __init__(self):')
        out.append(f'        dawgie.{base}.__init__(self)')
        svs = ', '.join(
            f"{pkg}.SV({alg_tag(a) + '.' + s['name']!r}, {s['name']!r}, {s['values']!r})" for s in a['svs'])
        out.append(f'        self._svs = [{svs}]')
        out.append(f'        self._version_ = dawgie.VERSION(*{pkg}.VERS[{alg_tag(a)!r}])')
        out.append('    def name(self):')
        out.append(f'        return {a["name"]!r}')
        out.append(f'    def {depfn}(self):')
        out.append('        refs = []')
        for d in a['deps']:
            tgt = spec['algs'][d['alg']]
            mod = f"{pkg}.{tgt['task']}"
            out.append(f'        import {mod}')
            out.append(f'        impl = {mod}.{cls_name(tgt)}()')
            fac = f"{mod}.{tgt['kind']}"
            if d['ref'] == 'alg':
                out.append(f'        refs.append(dawgie.ALG_REF({fac}, impl))')
            elif d['ref'] == 'sv':
                out.append(f"        refs.append(dawgie.SV_REF({fac}, impl, impl.state_vectors()[{d['sv']}]))")
            else:
                out.append(f"        refs.append(dawgie.V_REF({fac}, impl, impl.state_vectors()[{d['sv']}], {d['v']!r}))")
        out.append('        return refs')
        out.append(f'    {runsig}')
        out.append('        return')
        out.append('    def state_vectors(self):')
        out.append('        return self._svs')
        out.append('')
    kinds = [k for k in KINDS if any(a['kind'] == k for a in algs)]
    if spec['pattern'] == 'dep':
        for k in kinds:
            bot, sig, call = BOTS[k]
            members = ', '.join(cls_name(a) + '()' for a in algs if a['kind'] == k)
            out.append(f'class Bot_{k}(dawgie.{bot}):')
            out.append('    def list(self):')
            out.append(f'        return [{members}]')
            out.append('    def routines(self):')
            out.append(f'        return [{members}]')
            out.append('')
            out.append(f'def {k}({sig}):')
            out.append(f'    return Bot_{k}({call})')
            out.append('')
    else:
        for k in list(KINDS) + ['events']:
            sig, ret = PLACEHOLDER[k]
            out.append(f'def {k}({sig}) -> dawgie.FactoryPlaceholder[{ret}]:')
            out.append("    raise NotImplementedError('placeholder until dawgie monkey patches me')")
            out.append('')
    return '\n'.join(out) + '\n'


_COUNTER = [0]


class Engine:
    """a descriptor materialised as a package on disk and loaded through pl.scan.for_factories"""

    def __init__(self, spec):
        import dawgie.context
        import dawgie.pl.scan

        self.spec = spec
        _COUNTER[0] += 1
        self.pkg = f'vae{os.getpid()}x{_COUNTER[0]}'
        self.root = tempfile.mkdtemp(prefix='c15ae')
        pdir = os.path.join(self.root, self.pkg)
        os.makedirs(pdir)
        with open(os.path.join(pdir, '__init__.py'), 'w') as f:
            f.write(ROOT_SRC)
        for tname in sorted({a['task'] for a in spec['algs']}):
            os.makedirs(os.path.join(pdir, tname))
            with open(os.path.join(pdir, tname, '__init__.py'), 'w') as f:
                f.write(task_source(self.pkg, spec, tname))
        sys.path.insert(0, self.root)
        importlib.invalidate_caches()
        self.saved = (dawgie.context.ae_base_package, dawgie.context.ae_base_path)
        dawgie.context.ae_base_package = self.pkg
        dawgie.context.ae_base_path = pdir
        dawgie.pl.scan.REGISTRY.clear()
        dawgie.pl.scan.IGNORE.clear()
        self.mod = importlib.import_module(self.pkg)
        self.set_versions(spec['vers'])
        self.facs = dawgie.pl.scan.for_factories(pdir, self.pkg)

    def set_versions(self, vers):
        self.mod.VERS.clear()
        self.mod.VERS.update({k: tuple(v) for k, v in vers.items()})

    def all_factories(self):
        import dawgie

        return (self.facs[dawgie.Factories.analysis] + self.facs[dawgie.Factories.regress]
                + self.facs[dawgie.Factories.task])

    def close(self):
        import dawgie.context
        import dawgie.pl.scan

        dawgie.context.ae_base_package, dawgie.context.ae_base_path = self.saved
        if self.root in sys.path:
            sys.path.remove(self.root)
        for k in [k for k in sys.modules if k == self.pkg or k.startswith(self.pkg + '.')]:
            del sys.modules[k]
        dawgie.pl.scan.REGISTRY.clear()
        dawgie.pl.scan.IGNORE.clear()
        shutil.rmtree(self.root, ignore_errors=True)


class Fakes:
    """module attributes replaced for the duration of the run"""

    def __init__(self):
        import dawgie.context
        import dawgie.db
        import dawgie.pl.dag

        logging.disable(logging.CRITICAL)
        warnings.simplefilter('ignore')
        self.orig_graph = dawgie.pl.dag.Construct.graph
        self.orig_impl = dawgie.context.db_impl

        def graph(dot, roots, name):  # keeps the walk (it computes `level`), skips SVG rendering
            for root in roots:
                root.graph(dot)
            return b''

        dawgie.pl.dag.Construct.graph = staticmethod(graph)
        self.backend = types.ModuleType('dawgie.db.c15fake')
        self.backend.tables = ({}, {}, {}, {})
        self.backend.tnames = []
        self.backend.versions = lambda: self.backend.tables
        self.backend.targets = lambda: list(self.backend.tnames)
        sys.modules['dawgie.db.c15fake'] = self.backend
        self.tmp = tempfile.mkdtemp(prefix='c15db')
        self.dbn = 0
        self.orig_dbs = dawgie.context.data_dbs
        dawgie.context.data_dbs = self.tmp  # schedule.complete journals into <data_dbs>/chronicles

    def use_fake(self, tables, targets):
        import dawgie.context

        dawgie.context.db_impl = 'c15fake'
        self.backend.tables = tables
        self.backend.tnames = targets

    def open_shelve(self):
        import dawgie.context
        from dawgie.db.shelve.state import DBI

        DBI().close()
        self.dbn += 1
        dawgie.context.db_impl = 'shelve'
        dawgie.context.db_path = self.tmp
        dawgie.context.db_name = f'c15db{self.dbn}'
        DBI().open()

    def close(self):
        import dawgie.context
        import dawgie.pl.dag
        from dawgie.db.shelve.state import DBI

        try:
            DBI().close()
        except Exception:  # pylint: disable=broad-except
            pass
        dawgie.pl.dag.Construct.graph = self.orig_graph
        dawgie.context.db_impl = self.orig_impl
        dawgie.context.data_dbs = self.orig_dbs
        sys.modules.pop('dawgie.db.c15fake', None)
        shutil.rmtree(self.tmp, ignore_errors=True)
        logging.disable(logging.NOTSET)


# --------------------------------------------------------------------- observation
def observe():
    """que tags, and for every node reachable in ae.at (plus those in que): todo, factory kind"""
    import dawgie.pl.schedule as schedule

    nodes, stack = {}, list(schedule.ae.at)  # the graph of this load; queue entries are added below
    while stack:
        n = stack.pop()
        if n.tag in nodes and nodes[n.tag] is n:
            continue
        nodes.setdefault(n.tag, n)
        stack.extend(list(n))
    que = sorted(n.tag for n in schedule.que)
    todo = {}
    for n in list(nodes.values()) + list(schedule.que):
        t = n.get('todo')
        todo[n.tag] = sorted(t) if t is not None else []
    # queue entries that are not nodes of the graph this load built (left over from an earlier load)
    graph, stack = [], list(schedule.ae.at)
    while stack:
        n = stack.pop()
        if not any(n is g for g in graph):
            graph.append(n)
            stack.extend(list(n))
    stale = sorted(n.tag for n in schedule.que if not any(n is g for g in graph))
    return {'que': que, 'todo': todo, 'stale': stale}


def vstr(v):
    return '.'.join(str(c) for c in v)


def items_of(spec):
    """per algorithm node: [(class, dotted name)] of what is versioned and persistable"""
    out = {}
    for a in spec['algs']:
        tag = alg_tag(a)
        its = []
        for s in a['svs']:
            if s['values']:
                its.append(('sv', tag + '.' + s['name']))
                for v in s['values']:
                    its.append(('value', tag + '.' + s['name'] + '.' + v))
        if its:
            out[tag] = (a['kind'], [('alg', tag)] + its)
    return out


def oracle(spec, vers, persisted, targets):
    """the property: tag -> (causes, expected todo) for every algorithm that must be scheduled.
    `persisted`: {'alg'|'sv'|'value': {name: collection of version strings}}"""
    exp = {}
    for tag, (kind, its) in items_of(spec).items():
        causes = [cls for cls, name in its if vstr(vers[name]) not in persisted[cls].get(name, ())]
        if causes:
            exp[tag] = (causes, ['__all__'] if kind == 'analysis' else sorted(set(targets)))
    return exp


def judge(res, spec, vers, persisted, targets, obs, replay):
    """monitor: compare what the real build did with the property"""
    exp = oracle(spec, vers, persisted, targets)
    nodes = items_of(spec)
    que = set(obs['que'])
    ok = True
    for tag, (causes, want) in exp.items():
        if tag not in que:
            if not want:
                # no known target: "scheduled for every known target" demands nothing; whether an
                # entry with an empty todo sits in the queue is the business of C04
                continue
            ok = False
            res.hit(f'C15:not-rescheduled:{causes[0]}',
                    f'{tag}: current version of its {"/".join(sorted(set(causes)))} is not among the persisted '
                    f'versions but the algorithm is not in schedule.que after build', replay)
        elif obs['todo'].get(tag, []) != want:
            ok = False
            res.hit(f'C15:todo:{nodes[tag][0]}',
                    f'{tag} ({nodes[tag][0]}) was rescheduled with todo {obs["todo"].get(tag)} instead of {want}', replay)
    for tag in sorted(que - set(exp)):
        if not obs['todo'].get(tag):
            continue  # an entry without pending targets schedules nothing (what it still executes is C03/C04)
        ok = False
        what = 'every current version of it is persisted' if tag in nodes else 'it is not an algorithm of the engine'
        res.hit('C15:spurious-reschedule', f'{tag} is in schedule.que after build with todo {obs["todo"].get(tag)} '
                f'although {what}', replay)
    for tag in obs.get('stale', []):
        if not obs['todo'].get(tag):
            continue
        ok = False
        res.hit('C15:stale-entry', f'queue entry {tag} (todo {obs["todo"].get(tag)}) is not a node of the task graph '
                'this load built: it survived the reload from an earlier load', replay)
    for tag, todo in obs['todo'].items():
        if tag not in que and todo:
            ok = False
            res.hit('C15:stale-todo', f'{tag} is not scheduled but its todo is {todo}', replay)
    return ok


def split(name):
    return name.split('.')


def build_line(spec, latest, previous, targets):
    nodes = [[split(tag), kind] for tag, (kind, _its) in items_of(spec).items()]
    lat = [[[split(k), v] for k, v in t.items()] for t in latest]
    prev = [[[split(k), list(v) if isinstance(v, (list, tuple)) else []] for k, v in t.items()] for t in previous]
    return common.sx(['build', ['nodes'] + nodes, ['latest'] + lat, ['previous'] + prev, ['targets'] + list(targets)])


def run_real_build(eng, latest=None, previous=None, short=None):
    """the real pipeline step of FSM._pipeline: current, persistent, build; returns the
    observation together with what went into build"""
    import dawgie
    import dawgie.db
    import dawgie.pl.schedule as schedule
    import dawgie.pl.version as version

    if latest is None:
        latest = version.current(eng.all_factories())
    if previous is None:
        previous = version.persistent()
    targets = dawgie.db.targets()
    if short:
        latest, previous = latest[:short[0]], previous[:short[1]]
    try:
        schedule.build(eng.facs, latest, previous)
    except IndexError:
        return {'err': 'index'}, latest, previous, targets
    return observe(), latest, previous, targets


# --------------------------------------------------------------------- executing a scenario
def _factory_for(eng, task, kind):
    import dawgie
    import dawgie.util

    for f in eng.facs[dawgie.Factories[kind]]:
        if dawgie.util.task_name(f) == task:
            return f
    raise KeyError((task, kind))


def _record(eng, spec, tags, vers, log):
    """what a finished run leaves behind: the real pl.version.record on the real shelve tables"""
    import dawgie.pl.version as version
    import dawgie.util

    nodes = items_of(spec)
    for a in spec['algs']:
        tag = alg_tag(a)
        if tag in tags and tag in nodes:
            f = _factory_for(eng, a['task'], a['kind'])
            version.record(f(dawgie.util.task_name(f)), only=a['name'])
            for cls, name in nodes[tag][1]:
                log[cls].setdefault(name, set()).add(vstr(vers[name]))


def farm(eng, spec, acts, vers, log, stream, res):
    """what dawgie.pl.farm does between two loads, on the real scheduler: `dispatch` takes the real
    next_job_batch() and marks the batch running (farm.dispatch); `complete` books one returned
    (job, target) through the real schedule.complete (Hand._res), the worker having recorded its
    versions first (shelve stream).  Acts that do not apply to the state reached are skipped."""
    import dawgie.pl.schedule as schedule
    from dawgie.pl.jobinfo import State

    for act in acts:
        if act['act'] == 'dispatch':
            for j in schedule.next_job_batch():
                j.set('status', State.running)
                j.get('do').clear()
        else:
            pairs = sorted((j.tag, t) for j in schedule.que for t in j.get('doing'))
            if not pairs:
                continue
            jt, target = pairs[act['pick'] % len(pairs)]
            if stream == 'shelve':
                _record(eng, spec, {jt}, vers, log)
            schedule.complete(schedule.find(jt), 1, target, {'started': '11-13-17 23:29:31'}, State.success)
    for j in schedule.que:
        if j.get('status') is State.running and j.get('doing') and j.get('todo'):
            res.count('reload:running+doing+todo')
            break
    else:
        res.count('reload:other')


def execute(fk, spec, stream, steps, res, lines=None, pending=None, tag='gen', shrink=True):
    """run `steps` on a freshly written engine; monitor every build; queue model lines"""
    from dawgie.db.shelve import util as sutil
    from dawgie.db.shelve.state import DBI

    import dawgie.pl.schedule as schedule

    # a scenario starts like a fresh process (so that a replay file is self-contained); what an
    # earlier build of the SAME scenario left in the module is part of the history under test
    schedule.que, schedule.per, schedule.ae = [], [], None
    eng = Engine(spec)
    try:
        vers = dict(spec['vers'])
        log = {'alg': {}, 'sv': {}, 'value': {}}
        if stream == 'shelve':
            fk.open_shelve()
        for idx, st in enumerate(steps):
            if 'vers' in st:
                vers = dict(st['vers'])
                eng.set_versions(vers)
            if st['op'] == 'targets':
                for t in st['names']:
                    sutil.append(t, DBI().tables.target, DBI().indices.target)
                continue
            if st['op'] == 'record':
                _record(eng, spec, set(st['algs']), vers, log)
                continue
            if st['op'] == 'farm':
                if schedule.ae is not None:
                    farm(eng, spec, st['acts'], vers, log, stream, res)
                continue
            if stream == 'tables':
                fk.use_fake(tuple(st['prev']), list(st['targets']))
            replay = {'kind': 'build', 'stream': stream, 'spec': spec, 'steps': steps[:idx + 1]}
            try:
                obs, latest, previous, targets = run_real_build(eng, short=st.get('short'))
            except Exception as e:  # pylint: disable=broad-except
                import dawgie.db

                persisted = ({'alg': st['prev'][1], 'sv': st['prev'][2], 'value': st['prev'][3]}
                             if stream == 'tables' else log)
                if oracle(spec, vers, persisted, dawgie.db.targets()) and not st.get('short'):
                    res.hit('C15:build-raises',
                            f'schedule.build raised {type(e).__name__}: {e} — nothing is scheduled although '
                            'current versions are missing from the persisted ones', replay)
                else:
                    res.diff('Build.build vs schedule.build', replay, 'returns', f'{type(e).__name__}: {e}')
                res.count('build:raised')
                continue
            if 'err' in obs:
                res.count('build:IndexError')
                res.case(('short', st.get('short')), nontrivial=False)
            else:
                persisted = ({'alg': previous[1], 'sv': previous[2], 'value': previous[3]}
                             if stream == 'tables' else log)
                ok = judge(res, spec, vers, persisted, targets, obs, replay)
                if not ok and shrink and idx > 0 and stream == 'tables':
                    # cheap shrinking: the failing step alone, on a fresh engine
                    execute(fk, spec, stream, [dict(st, vers=vers)], res, tag='shrink', shrink=False)
                    eng.set_versions(vers)
                exp = oracle(spec, vers, persisted, targets)
                nn = len(items_of(spec))
                res.case((tag, repr(spec['algs']), sorted(vers.items()), repr(previous), tuple(targets)),
                         nontrivial=0 < len(exp) < nn or (len(exp) > 0 and nn == 1),
                         sample={'nodes': sorted(items_of(spec)), 'queued': obs['que'],
                                 'todo': {k: v for k, v in obs['todo'].items() if v}, 'targets': list(targets)})
                res.count(f'build:{stream}:{tag}')
                res.count('queued:' + ('none' if not exp else 'all' if len(exp) == nn else 'some'))
                for _t, (causes, _w) in exp.items():
                    res.count('cause:' + '+'.join(sorted(set(causes))))
                res.count('targets:%d' % len(targets))
            if lines is not None:
                lines.append(build_line(spec, latest, previous, targets))
                pending.append(('build', replay, obs))
    finally:
        eng.close()


# --------------------------------------------------------------------- generators
TASKS = ['t', 't1', 't10', 'tt', 'u', 'net']
ALGS = ['a', 'ab', 'a1', 'a10', 'b', 'c', 'engine', 'x']
SVS = ['s', 's1', 's10', 'sv', 'test']
VALS = ['x', 'y', 'x1', 'xy', 'image']
VPOOL = [(1, 0, 0), (1, 0, 1), (1, 1, 0), (2, 0, 0), (1, 0, 10), (10, 0, 1), (1, 10, 0), (1, 1, 1), (0, 0, 1), (3, 2, 1)]
TARGETS = ['T1', 'T2', 'T10', 'alpha', 'GJ-1214', 'b']


def gen_spec(r, small=False):
    n = r.choice([1, 2, 2, 3, 3, 4, 5, 6]) if not small else r.choice([1, 2, 3])
    tasks = r.sample(TASKS, r.choice([1, 1, 2, 2, 3]))
    algs, used = [], set()
    for i in range(n):
        t = r.choice(tasks)
        free = [a for a in ALGS if (t, a) not in used]
        name = r.choice(free)
        used.add((t, name))
        kind = r.choices(KINDS, weights=[5, 3, 2])[0]
        svs = []
        nsv = r.choices([0, 1, 2, 3], weights=[1, 7, 4, 2])[0]
        for s in r.sample(SVS, nsv):
            nv = r.choices([0, 1, 2, 3], weights=[1, 6, 4, 2])[0]
            svs.append({'name': s, 'values': r.sample(VALS, nv)})
        deps = []
        cands = [j for j in range(i) if any(s['values'] for s in algs[j]['svs'])]
        for j in r.sample(cands, min(len(cands), r.choice([0, 0, 1, 1, 2]))):
            full = [k for k, s in enumerate(algs[j]['svs']) if s['values']]
            ref = r.choice(['alg', 'sv', 'v'])
            d = {'alg': j, 'ref': ref}
            if ref != 'alg':
                d['sv'] = r.choice(full)
                if ref == 'v':
                    d['v'] = r.choice(algs[j]['svs'][d['sv']]['values'])
            deps.append(d)
        algs.append({'task': t, 'name': name, 'kind': kind, 'svs': svs, 'deps': deps})
    spec = {'pattern': r.choice(['dep', 'dep', 'dep', 'adv', 'adv']), 'algs': algs, 'vers': {}}
    for name in all_names(spec):
        spec['vers'][name] = list(r.choice(VPOOL))
    return spec


def all_names(spec):
    out = []
    for a in spec['algs']:
        tag = alg_tag(a)
        out.append(tag)
        for s in a['svs']:
            out.append(tag + '.' + s['name'])
            out.extend(tag + '.' + s['name'] + '.' + v for v in s['values'])
    return out


def table_of(name):
    return {1: 'alg', 2: 'sv', 3: 'value'}[name.count('.')]


def full_prev(spec, vers):
    """everything persisted at its current version"""
    prev = [{}, {}, {}, {}]
    idx = {'alg': 1, 'sv': 2, 'value': 3}
    for _tag, (_kind, its) in items_of(spec).items():
        for cls, name in its:
            prev[idx[cls]][name] = [vstr(vers[name])]
    for a in spec['algs']:
        prev[0][a['task']] = True
    return prev


def near_miss(r, cur):
    d, i, b = cur.split('.')
    return r.choice([f'{d}.{i}.{b}0', f'0{d}.{i}.{b}', f'{d}.{i}', f'{d}.{i}.{b}.0', f'{d}{i}.{b}', f'{b}.{i}.{d}x'])


def gen_prev(r, spec, vers):
    prev = [{}, {}, {}, {}]
    idx = {'alg': 1, 'sv': 2, 'value': 3}
    rate = r.choice([0.0, 0.05, 0.1, 0.1, 0.3, 0.3, 0.7, 1.0])
    for tag, (_kind, its) in items_of(spec).items():
        related = sorted({vstr(vers[name]) for _c, name in its})
        for cls, name in its:
            cur = vstr(vers[name])
            others = [v for v in related + [vstr(p) for p in r.sample(VPOOL, 3)] if v != cur]
            if r.random() >= rate:
                lst = r.sample(others, min(len(others), r.choice([0, 0, 1, 2])))
                lst.insert(r.randrange(len(lst) + 1), cur)
                if r.random() < 0.15:
                    lst.append(cur)
            else:
                mode = r.choices(['absent', 'others', 'empty', 'near'], weights=[3, 4, 1, 3])[0]
                if mode == 'absent':
                    continue
                lst = {'others': r.sample(others, min(len(others), r.choice([1, 2, 3]))) or [near_miss(r, cur)],
                       'empty': [], 'near': [near_miss(r, cur)] + r.sample(others, min(len(others), 1))}[mode]
            prev[idx[cls]][name] = lst
        if r.random() < 0.15:  # look-alike garbage that belongs to nobody
            prev[1][tag + r.choice(['x', '0', '_old'])] = [near_miss(r, '1.0.0')]
    for a in spec['algs']:
        if r.random() < 0.8:
            prev[0][a['task']] = True
    if r.random() < 0.2:
        prev[r.choice([1, 2, 3])]['zz.q' + r.choice(['', '.s', '.s.x'])] = ['9.9.9']
    return prev


def bump(r, spec, vers):
    """a software update: some algorithm / state-vector / value versions change"""
    vers = dict(vers)
    names = all_names(spec)
    k = r.choice([0, 1, 1, 1, 2, 3])
    for name in r.sample(names, min(k, len(names))):
        d, i, b = vers[name]
        vers[name] = r.choice([[d, i, b + 1], [d, i + 1, 0], [d + 1, 0, 0], list(r.choice(VPOOL))])
    return vers


def gen_targets(r):
    ts = r.sample(TARGETS, r.choices([0, 1, 2, 3], weights=[1, 3, 4, 3])[0])
    if r.random() < 0.2:
        ts.insert(r.randrange(len(ts) + 1), '__' + r.choice(['sys', 'all', 'metric']) + '__')
    return ts


def gen_table_steps(r, spec, n):
    steps, vers = [], dict(spec['vers'])
    for _ in range(n):
        if r.random() < 0.6:
            vers = bump(r, spec, vers)
        st = {'op': 'build', 'vers': vers, 'prev': gen_prev(r, spec, vers), 'targets': gen_targets(r)}
        if r.random() < 0.04:
            st['short'] = r.choice([[2, 4], [3, 3], [3, 1], [0, 4], [1, 2]])
        steps.append(st)
    return steps


def gen_shelve_steps(r, spec, n):
    steps, vers = [{'op': 'targets', 'names': [t for t in gen_targets(r)]}], dict(spec['vers'])
    tags = sorted(items_of(spec))
    for _ in range(n):
        c = r.random()
        if c < 0.4 and tags:
            steps.append({'op': 'record', 'vers': vers, 'algs': r.sample(tags, r.randrange(1, len(tags) + 1))})
        elif c < 0.65:
            vers = bump(r, spec, vers)
            if r.random() < 0.3 and steps:  # roll one item back to a version seen before
                name = r.choice(all_names(spec))
                vers[name] = list(spec['vers'][name])
            steps.append({'op': 'build', 'vers': vers})
        else:
            steps.append({'op': 'build', 'vers': vers})
    if steps[-1]['op'] != 'build':
        steps.append({'op': 'build', 'vers': vers})
    return steps


def gen_acts(r):
    acts = [{'act': 'dispatch'}]
    for _ in range(r.choice([1, 2, 3, 5, 8])):
        acts.append({'act': 'dispatch'} if r.random() < 0.45 else {'act': 'complete', 'pick': r.randrange(64)})
    if r.random() < 0.7:
        acts.append({'act': 'dispatch'})
    return acts


def gen_reload_steps(r, spec, stream):
    """reload histories: load, the farm works for a while (units executing, some targets still
    owed), versions get persisted, software update, load again while work is in flight"""
    vers = dict(spec['vers'])
    tg = r.sample(TARGETS, r.choice([2, 3, 3, 4]))
    steps = [{'op': 'targets', 'names': tg}] if stream == 'shelve' else []
    first, old = True, vers
    for _ in range(r.choice([1, 2, 3])):
        st = {'op': 'build', 'vers': vers}
        if stream == 'tables':
            # everything (first load) or the bumped items are unknown to the persisted tables
            st['prev'] = (full_prev(spec, old) if not first
                          else [{}, {}, {}, {}] if r.random() < 0.7 else gen_prev(r, spec, vers))
            st['targets'] = tg
        steps.append(st)
        steps.append({'op': 'farm', 'acts': gen_acts(r)})
        if stream == 'shelve' and r.random() < 0.6:
            tags = sorted(items_of(spec))
            if tags:
                steps.append({'op': 'record', 'algs': r.sample(tags, r.randrange(1, len(tags) + 1))})
        old, first = vers, False
        vers = bump(r, spec, vers) if r.random() < 0.8 else vers
    st = {'op': 'build', 'vers': vers}
    if stream == 'tables':
        st['prev'], st['targets'] = full_prev(spec, old), tg
    steps.append(st)
    return steps


def chain_spec(pattern):
    """a -> b -> d, a -> c -> r (regression) -> e (analysis): units with an ancestor in the queue are
    released target by target, so they are found executing one target and owing others"""
    def alg(name, kind, deps):
        return {'task': 'eng', 'name': name, 'kind': kind, 'svs': [{'name': 'sv', 'values': ['x']}],
                'deps': [{'alg': d, 'ref': 'sv', 'sv': 0} for d in deps]}

    spec = {'pattern': pattern, 'algs': [alg('a', 'task', []), alg('b', 'task', [0]), alg('c', 'task', [0]),
                                         alg('d', 'task', [1]), alg('r', 'regress', [2]), alg('e', 'analysis', [4])],
            'vers': {}}
    for name in all_names(spec):
        spec['vers'][name] = [1, 1, 0]
    return spec


def reload_corpus():
    """a reload while work is in flight: a and b bumped, a executing T3, b executing T2 and owing T3,
    both recorded meanwhile; then only d is bumped and the pipeline reloads"""
    out = []
    tg = ['T1', 'T2', 'T3']
    acts = [{'act': 'dispatch'}, {'act': 'complete', 'pick': 0}, {'act': 'dispatch'},
            {'act': 'complete', 'pick': 2}, {'act': 'complete', 'pick': 0}, {'act': 'dispatch'}]
    for pattern in ('dep', 'adv'):
        spec = chain_spec(pattern)
        v0 = spec['vers']
        v1 = dict(v0, **{'eng.a': [1, 2, 0], 'eng.b': [1, 2, 0]})
        v2 = dict(v1, **{'eng.d': [1, 1, 1]})
        out.append(('tables', spec, [
            {'op': 'build', 'vers': v0, 'prev': full_prev(spec, v0), 'targets': tg},
            {'op': 'build', 'vers': v1, 'prev': full_prev(spec, v0), 'targets': tg},
            {'op': 'farm', 'acts': acts},
            {'op': 'build', 'vers': v2, 'prev': full_prev(spec, v1), 'targets': tg},
            {'op': 'farm', 'acts': acts},
            {'op': 'build', 'vers': v2, 'prev': full_prev(spec, v2), 'targets': tg}]))
        out.append(('shelve', spec, [
            {'op': 'targets', 'names': tg},
            {'op': 'record', 'vers': v0, 'algs': sorted(items_of(spec))},
            {'op': 'build', 'vers': v0},
            {'op': 'build', 'vers': v1},
            {'op': 'farm', 'acts': acts},
            {'op': 'build', 'vers': v2},
            {'op': 'farm', 'acts': acts + acts},
            {'op': 'build', 'vers': v2}]))
    return out


def corpus():
    """the shapes that historically break version-difference code"""
    def sv(name, *vals):
        return {'name': name, 'values': list(vals)}

    base = {'pattern': 'dep', 'algs': [
        {'task': 't', 'name': 'a', 'kind': 'task', 'svs': [sv('s', 'x', 'y'), sv('s1', 'x')], 'deps': []},
        {'task': 't', 'name': 'ab', 'kind': 'task', 'svs': [sv('s', 'x')], 'deps': [{'alg': 0, 'ref': 'alg'}]},
        {'task': 't1', 'name': 'a', 'kind': 'analysis', 'svs': [sv('s', 'x')], 'deps': [{'alg': 0, 'ref': 'sv', 'sv': 0}]},
        {'task': 't10', 'name': 'a', 'kind': 'regress', 'svs': [sv('s', 'x')], 'deps': [{'alg': 1, 'ref': 'v', 'sv': 0, 'v': 'x'}]},
        {'task': 't10', 'name': 'c', 'kind': 'task', 'svs': [sv('s', 'x'), sv('e')],
         'deps': [{'alg': 2, 'ref': 'alg'}, {'alg': 3, 'ref': 'alg'}]},
    ], 'vers': {}}
    for k, name in enumerate(all_names(base)):
        base['vers'][name] = [1, k % 3, k % 2]
    v0 = base['vers']
    tg = ['T1', 'T2']
    out = []
    for pattern in ('dep', 'adv'):
        spec = dict(base, pattern=pattern)
        steps = [{'op': 'build', 'vers': v0, 'prev': full_prev(spec, v0), 'targets': tg}]  # nothing new
        for name in ['t.a.s.y', 't.a.s1', 't.a', 't.ab', 't.ab.s.x', 't1.a', 't1.a.s', 't10.a.s.x', 't10.c.s', 't10.c.e']:
            v = dict(v0)
            v[name] = [v0[name][0], v0[name][1], v0[name][2] + 1]
            steps.append({'op': 'build', 'vers': v, 'prev': full_prev(spec, v0), 'targets': tg})  # one bump
        # rolled back to a version that is persisted, but not the last one recorded
        p = full_prev(spec, v0)
        p[3]['t.a.s.x'] = [vstr(v0['t.a.s.x']), '7.7.7']
        p[1]['t.ab'] = ['0.0.1', vstr(v0['t.ab']), '7.7.7']
        steps.append({'op': 'build', 'vers': v0, 'prev': p, 'targets': tg})
        # brand-new algorithm: nothing of t10.c is known; then the same with only its algorithm entry known
        p = full_prev(spec, v0)
        for t in (1, 2, 3):
            p[t] = {k: l for k, l in p[t].items() if not k.startswith('t10.c')}
        steps.append({'op': 'build', 'vers': v0, 'prev': p, 'targets': tg})
        p = [dict(t) for t in p]
        p[1]['t10.c'] = [vstr(v0['t10.c'])]
        steps.append({'op': 'build', 'vers': v0, 'prev': p, 'targets': tg})
        # tables crossed: the state vector's version sits in the algorithm table and vice versa
        v = dict(v0)
        v['t1.a'], v['t1.a.s'], v['t1.a.s.x'] = [2, 0, 0], [3, 0, 0], [4, 0, 0]
        p = full_prev(spec, v)
        p[1]['t1.a'], p[2]['t1.a.s'], p[3]['t1.a.s.x'] = ['3.0.0', '4.0.0'], ['2.0.0', '4.0.0'], ['2.0.0', '3.0.0']
        steps.append({'op': 'build', 'vers': v, 'prev': p, 'targets': tg})
        # everything new, then nothing new (the second build must start from an empty queue)
        steps.append({'op': 'build', 'vers': v0, 'prev': [{}, {}, {}, {}], 'targets': tg + ['__sys__']})
        steps.append({'op': 'build', 'vers': v0, 'prev': full_prev(spec, v0), 'targets': tg})
        # no known target at all
        steps.append({'op': 'build', 'vers': v0, 'prev': [{}, {}, {}, {}], 'targets': []})
        steps.append({'op': 'build', 'vers': v0, 'prev': full_prev(spec, v0), 'targets': tg, 'short': [2, 4]})
        out.append(('tables', spec, steps))
        out.append(('shelve', spec, [
            {'op': 'targets', 'names': tg}, {'op': 'build', 'vers': v0},
            {'op': 'record', 'vers': v0, 'algs': ['t.a', 't.ab', 't1.a']}, {'op': 'build', 'vers': v0},
            {'op': 'record', 'vers': v0, 'algs': ['t10.a', 't10.c']}, {'op': 'build', 'vers': v0},
            {'op': 'build', 'vers': dict(v0, **{'t.a.s.y': [5, 0, 0]})},
            {'op': 'record', 'vers': dict(v0, **{'t.a.s.y': [5, 0, 0]}), 'algs': ['t.a']},
            {'op': 'build', 'vers': dict(v0, **{'t.a.s.y': [5, 0, 0]})},
            {'op': 'build', 'vers': v0},  # rolled back: 1.x.y of t.a.s.y is still persisted
            {'op': 'build', 'vers': dict(v0, **{'t1.a.s': [5, 0, 0], 't10.a': [5, 0, 0]})},
        ]))
    return out


def exhaustive_small_scope(fk, res, lines, pending, states):
    """one small engine, every assignment of {persisted, absent[, other version only]} to each of
    its versioned items (2^7 resp. 3^7 builds) — used to find an input, never as the proof"""
    def sv(name, *vals):
        return {'name': name, 'values': list(vals)}

    spec = {'pattern': 'dep', 'algs': [
        {'task': 't', 'name': 'a', 'kind': 'task', 'svs': [sv('s', 'x', 'y')], 'deps': []},
        {'task': 't', 'name': 'b', 'kind': 'analysis', 'svs': [sv('s', 'x')],
         'deps': [{'alg': 0, 'ref': 'v', 'sv': 0, 'v': 'x'}]},
    ], 'vers': {}}
    for k, name in enumerate(all_names(spec)):
        spec['vers'][name] = [1, k, 0]
    names = all_names(spec)
    idx = {'alg': 1, 'sv': 2, 'value': 3}
    steps = []
    for combo in itertools.product(range(states), repeat=len(names)):
        prev = [{'t': True}, {}, {}, {}]
        for name, c in zip(names, combo):
            if c == 0:
                prev[idx[table_of(name)]][name] = ['0.0.1', vstr(spec['vers'][name])]
            elif c == 2:
                prev[idx[table_of(name)]][name] = ['0.0.1', '9.9.9']
        steps.append({'op': 'build', 'prev': prev, 'targets': ['T1', 'T2']})
    execute(fk, spec, 'tables', steps, res, lines, pending, tag='small-scope')


# --------------------------------------------------------------------- entry points
def compare_with_model(res, pending, outs):
    for (kind, info, impl), o in zip(pending, outs):
        model = common.parse_sx(o)
        if kind == 'ver':
            mm = [x == 'T' for x in model]
            if mm != impl:
                res.diff('Generated.Version vs dawgie.Version operators', {'a': list(info[0]), 'b': list(info[1])},
                         dict(zip(OPNAMES, mm)), dict(zip(OPNAMES, impl)))
            continue
        if model[0] == 'err':
            if impl.get('err') != model[1]:
                res.diff('Build.build vs schedule.build', info, 'IndexError', impl)
            continue
        if 'err' in impl:
            res.diff('Build.build vs schedule.build', info, o, 'IndexError')
            continue
        mque = sorted('.'.join(n) for n in model[1][1:])
        mtodo = {'.'.join(e[0]): sorted(e[1]) for e in model[2][1:]}
        itodo = {k: impl['todo'].get(k) for k in mtodo}
        if mque != impl['que'] or mtodo != itodo:
            res.diff('Build.build vs schedule.build', info, {'que': mque, 'todo': mtodo},
                     {'que': impl['que'], 'todo': itodo})


def run(ctx, res):
    r = common.rng(ctx['seed'], 'C15')
    # budget: 0 quick, 1 escalated (a proof / the translator / a fingerprint changed), 2 thorough
    level = 2 if ctx['tier'] == 'thorough' else 1 if ctx['escalate'] else 0
    res.rule = ('(a) every pair of version triples in [0,3]^3 x [0,3]^3 plus random large / adjacent triples on real '
                'dawgie.Version objects and on the generated Lean functions; (b) generated algorithm engines (1-6 '
                'algorithms, task/analysis/regress, 0-3 state vectors with 0-3 values, dependencies, look-alike names, '
                'factory-function and class-registry packages) written to disk and loaded by pl.scan; histories of '
                'builds with random bumps, random persisted tables (fake backend) or real pl.version.record on a real '
                'shelve database; reload histories in which the real next_job_batch/complete leave units executing '
                'with targets still owed when the next build comes; each build goes through the real current/persistent/build and through the Lean '
                'model; non-trivial = some but not all algorithms rescheduled; distinct by engine+versions+tables')
    res.assumptions = list(TRUSTED)
    lines, pending = [], []
    run_versions(ctx, res, r, lines, pending, level)
    fk = Fakes()
    try:
        for stream, spec, steps in corpus():
            execute(fk, spec, stream, steps, res, lines, pending, tag='corpus')
        for stream, spec, steps in reload_corpus():
            execute(fk, spec, stream, steps, res, lines, pending, tag='reload-corpus')
        cdir = os.path.join(common.VERIF, 'corpus', 'C15')
        for f in sorted(os.listdir(cdir)) if os.path.isdir(cdir) else []:
            if f.endswith('.json'):  # minimised past failures (replay inputs)
                inp = json.load(open(os.path.join(cdir, f)))['input']
                if inp.get('kind') == 'build':
                    execute(fk, inp['spec'], inp['stream'], inp['steps'], res, lines, pending, tag='corpus')
        exhaustive_small_scope(fk, res, lines, pending, 3 if level else 2)
        n_tab, n_sh = ((110, 30), (600, 150), (2500, 500))[level]
        for _ in range(n_tab):
            spec = gen_spec(r)
            execute(fk, spec, 'tables', gen_table_steps(r, spec, r.choice([3, 5, 8])), res, lines, pending)
            res.count('engine:' + spec['pattern'])
            res.count('engine:algs:%d' % len(spec['algs']))
        for _ in range(n_sh):
            spec = gen_spec(r, small=r.random() < 0.5)
            execute(fk, spec, 'shelve', gen_shelve_steps(r, spec, r.choice([4, 6, 9])), res, lines, pending)
            res.count('engine:' + spec['pattern'])
        rr = common.rng(ctx['seed'], 'C15-reload')
        for _ in range((60, 250, 1200)[level]):
            if rr.random() < 0.3:
                spec = chain_spec(rr.choice(['dep', 'adv']))
            else:
                for _try in range(6):  # units below other units are the ones found half released
                    spec = gen_spec(rr)
                    if any(a['deps'] for a in spec['algs']):
                        break
            stream = 'shelve' if rr.random() < 0.35 else 'tables'
            execute(fk, spec, stream, gen_reload_steps(rr, spec, stream), res, lines, pending, tag='reload')
            res.count('engine:' + spec['pattern'])
    finally:
        fk.close()
    if ctx['lean']:
        outs = common.driver(lines, 'C15')
        compare_with_model(res, pending, outs)
        res.traces = len(pending)


def replay(rep, res):
    inp = rep['input']
    if inp['kind'] == 'version':
        plain, custom = _version_classes()
        check_pair(res, [(plain, plain), (custom, plain)], inp['a'], inp['b'], [], [], 'replay')
        return
    fk = Fakes()
    try:
        execute(fk, inp['spec'], inp['stream'], inp['steps'], res, tag='replay', shrink=False)
    finally:
        fk.close()
