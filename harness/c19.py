"""C19 — correspondence + monitors for the static file service and the anonymous access decision.

Real code driven: fe._static, fe.StaticContent.render (render_GET), security.is_sanctioned,
security.sanctioned (with the hook override installed through dawgie.context.sanction_override),
every registered fe.basis.DynamicContent.render_GET/POST/PUT/DELETE (found by walking the real
route tree), and the real handlers of every endpoint under recording mutators.

Monitors (independent of the Lean model):
* static: every file of the sandbox has unique content; any returned bytes that contain the
  content of a file whose realpath is outside both resolved roots is a violation.
* sanction: with client certificates configured (real PEM key directories: valid, mixed, all expired,
  expired yesterday, not yet valid) and no certificate presented, no endpoint named run / reset /
  submit / snapshot is sanctioned, and no real handler reaches a mutator; a raising / unresolvable hook
  never yields access; a handler never runs for a request that `security.sanctioned` refuses."""
import builtins
import errno
import json
import logging
import os
import shutil
import sys
import tempfile
import types

from . import common

LEAN_TARGETS = ['DawgieVerif.Model.StaticIO']

MANIFEST = dict(
    text='Lean theorems over (a) an executable model of the control flow of fe._static in which Path.resolve, '
         'is_dir, is_file and is_relative_to are arbitrary functions, including the try/except around the strict '
         'resolve (served_within, escape_never_served, opened_first_within, inlined_reads_not_request_controlled, '
         'served_really_inside: for every file system, symlink layout, request string and list of roots, by '
         'induction over the roots; unrepaired_code_escapes and half_resolved_path_escapes show the statements fail '
         'for the code before the repairs and without the "resolve returns real locations" law) and (b) the access '
         'decision regenerated from the source on every run: the all_access list and the if-ladder of '
         'security.is_sanctioned, the fallback of security.sanctioned, the statement order of '
         'DynamicContent.__render and every DynamicContent registration with the mutators its handler reaches '
         '(sanction_table, anon_allowlist, no_command_anonymous, commands_denied_to_strangers, hook_fail_closed, '
         'guard_first, check_before_handler, stranger_cannot_command, raising_hook_runs_nothing). Tied by '
         'translator (tables, ladder) validated on the full grid against the real functions, and by a '
         'correspondence run of the real _static on generated sandbox trees and of every registered resource; '
         'the monitors run the real handlers under recording mutators, with client certificates configured '
         'through real PEM key directories (valid, mixed, all expired, expired yesterday, not yet valid) loaded by '
         'the real security._tls_initialize.',
    note='Trusted: Lean kernel; axioms propext/Classical.choice/Quot.sound only; tools/gen_c19.py (AST subset, '
         'call-graph walk over dawgie.fe modules with a deny-list of mutator names); harness fakes (twisted request, '
         'transport, certificate, hook module, recording mutators). Assumed, sampled not proved: '
         'Path.resolve(strict=True) returns a symlink-free real location (law L1 of served_really_inside; the '
         'non-strict resolve of CPython 3.12 breaks it on symlink loops, found by this check and repaired) and '
         'is_relative_to on such paths is containment (L2); the file system does not change between the check and '
         'open() within one call; TLS verification of a presented certificate is Twisted\'s. The style-sheet '
         'inlining of the deprecated site opens bdir/<name> for names taken from site CONTENT, not from the request: '
         'outside the request-controlled surface (stated as a theorem about the model). Routing of URLs to '
         'resources by twisted.web is not modelled (the check uses the registered uri; the harness compares the '
         'route tree with the generated table).',
    technique='Lean 4 proof (induction over the root loop with arbitrary oracles; decide over generated tables; '
              'interpreter invariant for __render) + translator grid validation + differential correspondence',
    design='7/C19',
)

TRUSTED = [
    'pathlib: resolve(strict=True) yields a symlink-free real location (L1) and is_relative_to on such paths is '
    'containment (L2); the monitor checks real containment by content on every generated case',
    'the file system is not modified between is_relative_to/is_file and open() inside one _static call',
    'a presented client certificate has been verified by the TLS layer (Twisted) against security.clients()',
    'fake twisted request/transport/certificate objects; hook override installed as a synthetic module named in '
    'dawgie.context.sanction_override',
    'mutator deny-list of tools/gen_c19.py (what makes an endpoint a command); cross-checked dynamically by running '
    'the real handlers under recording mutators',
]

COMMAND_WORDS = ('run', 'reset', 'submit', 'snapshot')  # the property text
ERR = b'Error: could not find static files '


# ======================================================================== static part

def tok(k):
    return ('@@C19-%04d@@' % k).encode()


class Sandbox:
    """A directory tree built deterministically from (seed, index):

    <top>/SECRET.txt, etc/passwd, fe-private/secret.txt, outside/...      outside the roots
    <top>/fe/...      AE front-end root      <top>/site/...  bundled/site root
    <top>/fe_link -> fe                      (root given as a symlink)
    """

    def __init__(self, seed, index):
        self.seed, self.index = seed, index
        self.r = common.rng(seed, f'C19:tree:{index}')
        self.top = os.path.realpath(tempfile.mkdtemp(prefix='c19_'))
        self.k = 0
        self.files = {}  # realpath -> token
        self.names = set()
        self._build()

    # ---- builders
    def f(self, rel, body=None):
        p = os.path.join(self.top, rel)
        os.makedirs(os.path.dirname(p), exist_ok=True)
        self.k += 1
        t = tok(self.k)
        with open(p, 'wb') as fh:
            fh.write(t if body is None else body.replace(b'TOKEN', t))
        self.files[os.path.realpath(p)] = t
        self.names.update(x for x in rel.split('/')[1:])
        return p

    def d(self, rel):
        os.makedirs(os.path.join(self.top, rel), exist_ok=True)
        self.names.update(x for x in rel.split('/')[1:])

    def ln(self, rel, target):
        p = os.path.join(self.top, rel)
        os.makedirs(os.path.dirname(p), exist_ok=True)
        if not os.path.lexists(p):
            os.symlink(target, p)
        self.names.update(x for x in rel.split('/')[1:])

    def _build(self):
        r = self.r
        f, d, ln = self.f, self.d, self.ln
        # outside
        f('SECRET.txt')
        f('etc/passwd')
        f('fe-private/secret.txt')
        f('site-old/secret.css')
        f('outside/file.txt')
        f('outside/dir/index.html', b'<html>TOKEN</html>')
        f('outside/dir/inner.txt')
        # fe root
        f('fe/index.html', b'<html>fe TOKEN</html>')
        f('fe/a.txt')
        f('fe/logo.svg', b'<svg>TOKEN</svg>')
        f('fe/app.js')
        f('fe/%2e%2e/enc.txt')
        f('fe/sub/index.html', b'<html>sub TOKEN</html>')
        f('fe/sub/deep/x.txt')
        f('fe/noindex/y.txt')
        f('fe/idxdir/index.html/z.txt')  # index.html is a directory
        ln('fe/ln_in_file', 'a.txt')
        ln('fe/ln_in_dir', 'sub')
        ln('fe/ln_out_file', '../SECRET.txt')
        ln('fe/ln_out_dir', '../outside/dir')
        ln('fe/ln_out_abs', os.path.join(self.top, 'SECRET.txt'))
        ln('fe/ln_to_site', '../site/s.css')
        ln('fe/ln_up', '..')
        ln('fe/sub_evil/index.html', '../../outside/file.txt')  # F-C19b shape
        ln('fe/sub_evil_dir/index.html', '../../outside/dir')
        ln('fe/loop', 'loop')
        ln('fe/dangling', 'nowhere')
        # site root (bdir)
        f('site/index.html',
          b"<html><head>\n<link href='/stylesheets/main.css' rel='stylesheet'>\n</head>site TOKEN</html>")
        f('site/plain.html', b'<html>plain TOKEN</html>')
        f('site/pages/pipelines/index.html',
          b"<html>\n<link href='/stylesheets/main.css'>\n<script src='/javascripts/welcome.js'></script>TOKEN</html>")
        f('site/pages/dyn.html', b"<html>\n<a href='/app/pl/state'>TOKEN</a></html>")
        f('site/pages/nocss.html', b"<html>\n<link href='/stylesheets/missing.css'>TOKEN</html>")
        f('site/stylesheets/main.css', b'body { color: red } /* TOKEN */')
        f('site/s.css')
        f('site/a.txt')  # shadowed by fe/a.txt
        f('site/only_site.txt')
        ln('site/ln_out', '../SECRET.txt')
        ln('site/ln_fe', '../fe/a.txt')
        ln('site/evil/index.html', '../../etc/passwd')
        ln('site/loop2', 'loop2')
        # same name in both roots: inside-but-not-a-file under fe, a way out under site
        f('fe/pair/index.html/keep.txt')
        ln('site/pair', '../SECRET.txt')
        f('fe/pair2/index.html/keep.txt')
        ln('site/pair2/index.html', '../../etc/passwd')
        f('fe/pair3/index.html/keep.txt')
        ln('site/pair3', '../outside/dir')
        os.symlink('fe', os.path.join(self.top, 'fe_link'))
        # random extras
        alpha = ['p', 'q', 'r', 'sub', 'deep', 'x.txt', 'w.html', 'v.css']
        places = ['fe', 'site', 'fe/sub', 'site/pages', 'outside']
        made_dirs = ['fe', 'site', 'fe/sub', 'site/pages', 'outside', 'fe/noindex']
        for _ in range(r.randrange(4, 12)):
            base = r.choice(made_dirs)
            name = r.choice(alpha)
            rel = base + '/' + name
            p = os.path.join(self.top, rel)
            if os.path.lexists(p):
                continue
            kind = r.random()
            if kind < 0.35:
                if '.' in name:
                    f(rel)
                else:
                    d(rel)
                    made_dirs.append(rel)
                    if r.random() < 0.5:
                        f(rel + '/index.html', b'<html>TOKEN</html>')
            elif kind < 0.75:
                # symlink to something: inside or outside, relative or absolute
                tgt = r.choice(['SECRET.txt', 'outside', 'outside/dir', 'outside/file.txt', 'fe/a.txt',
                                'fe/sub', 'site/s.css', 'site', 'etc', 'fe-private', 'fe', '.'])
                if r.random() < 0.5:
                    target = os.path.join(self.top, tgt)
                else:
                    target = os.path.relpath(os.path.join(self.top, tgt), os.path.dirname(p))
                ln(rel, target)
            else:
                d(rel + '_d')
                made_dirs.append(rel + '_d')
                ln(rel + '_d/index.html', os.path.join(self.top, r.choice(
                    ['SECRET.txt', 'outside/dir', 'fe/a.txt', 'site/s.css'])))
        self.roots_real = [os.path.realpath(os.path.join(self.top, 'fe')),
                           os.path.realpath(os.path.join(self.top, 'site'))]
        self.outside = {p: t for p, t in self.files.items() if not self.inside(p)}
        self.inside_tokens = {t for p, t in self.files.items() if self.inside(p)}

    def inside(self, real):
        return any(real == rt or real.startswith(rt + os.sep) for rt in self.roots_real)

    def close(self):
        shutil.rmtree(self.top, ignore_errors=True)

    # ---- request generator
    def expand(self, fn):
        """request strings are kept portable: {TOP} stands for the sandbox directory"""
        return fn.replace('{TOPREL}', self.top.lstrip('/')).replace('{TOP}', self.top)

    def requests(self, n, r):
        top = '{TOP}'
        corpus = [
            '/', '', '/index.html', '/a.txt', '/sub', '/sub/', '/sub/index.html', '/only_site.txt',
            '/../SECRET.txt', '/../../SECRET.txt', '/sub/../../SECRET.txt', '/./../SECRET.txt',
            '//../SECRET.txt', '/../etc/passwd', '//etc/passwd', '/' + top + '/SECRET.txt',
            '//' + top + '/SECRET.txt', '/../fe-private/secret.txt', '/../site-old/secret.css',
            '/../fe/a.txt', '/../site/s.css', '/../fe', '/..', '/../', '/.', '/./', '/sub/..', '/sub/../',
            '/ln_in_file', '/ln_in_dir', '/ln_in_dir/', '/ln_in_dir/index.html', '/ln_out_file',
            '/ln_out_dir', '/ln_out_dir/', '/ln_out_dir/index.html', '/ln_out_dir/inner.txt', '/ln_out_abs',
            '/ln_to_site', '/ln_up/SECRET.txt', '/ln_up/fe/a.txt', '/ln_up', '/ln_up/',
            '/sub_evil', '/sub_evil/', '/sub_evil/index.html', '/sub_evil_dir', '/sub_evil_dir/index.html',
            '/evil', '/evil/index.html', '/ln_out', '/ln_fe', '/loop', '/loop/x', '/dangling', '/idxdir',
            '/idxdir/index.html', '/idxdir/index.html/z.txt', '/noindex', '/noindex/y.txt',
            '/%2e%2e/SECRET.txt', '/%2e%2e/enc.txt', '/%2e%2e', '/%2E%2E/SECRET.txt', '/..%2fSECRET.txt',
            '/%2e%2e%2fSECRET.txt', '/sub/%2e%2e/%2e%2e/SECRET.txt', '/.%2e/SECRET.txt',
            '/index.html?x=1', '/a.txt#frag', '/a.txt/', '/a.txt/..', '/a.txt/../../SECRET.txt',
            '/nonexistent/../../SECRET.txt', '/nonexistent', '/plain.html', '/pages/pipelines',
            '/pages/pipelines/index.html', '/pages/dyn.html', '/pages/nocss.html', '/stylesheets/main.css',
            '/logo.svg', '/app.js', '/s.css', '/a\x00b', '/\x00', '/' + 'n' * 300, '/' + 'm/' * 2100,
            '/sub/' + 'k' * 256 + '/../../../SECRET.txt', '/\udcff', '/../SECRET.txt\x00.html',
            '\\..\\SECRET.txt', '/..\\SECRET.txt', '/~', '/~root', '/$HOME', '/*',
            # a symlink loop on the way: a non-strict resolve() hands back a half resolved path
            '/loop/../ln_out_file', '/loop/../ln_out_abs', '/loop/../ln_out_dir', '/loop/x/../../ln_out_file',
            '/loop/../sub_evil', '/loop/../ln_up/SECRET.txt', '/loop/../a.txt', '/loop/../ln_in_file',
            '/sub/../loop/../ln_out_file', '/loop/../ln_out', '/loop/../evil', '/loop/..', '/loop/.',
            '/pair', '/pair/', '/pair2', '/pair3', '/pair/index.html', '/pair3/index.html',
            '/loop2/../ln_out', '/loop2/../evil', '/loop2/../ln_fe', '/loop2/x/y/../../../ln_out', '/loop2',
        ]
        for c in corpus:
            yield 'corpus', c
        names = sorted(self.names) + ['SECRET.txt', 'etc', 'passwd', 'fe', 'site', 'outside', 'fe-private',
                                       'fe_link', 'dir', 'file.txt', 'secret.txt']
        specials = ['..', '..', '..', '.', '', '%2e%2e', '%2E%2e', '..%2f', '...', ' ', '..;', '.. ']
        # every entry below the two roots, relative to its root (files, directories, symlinks)
        rels = []
        for root in ('fe', 'site'):
            base = os.path.join(self.top, root)
            for dp, dns, fns in os.walk(base):
                for x in sorted(dns + fns):
                    rels.append(os.path.relpath(os.path.join(dp, x), base))
        rels.sort()
        for _ in range(n):
            if r.random() < 0.5:
                # a path that exists, decorated with segments that should not change its meaning,
                # or with an excursion out of the root and back
                segs = r.choice(rels).split('/')
                out = []
                for sgm in segs:
                    x = r.random()
                    if x < 0.12:
                        out.append('.')
                    elif x < 0.2:
                        out.append('')
                    elif x < 0.3:
                        out += [r.choice(names), '..']
                    out.append(sgm)
                x = r.random()
                if x < 0.15:
                    out = ['..', r.choice(['fe', 'site', 'fe_link', 'outside', 'fe-private'])] + out
                elif x < 0.25:
                    out = out + ['..'] * r.randrange(1, len(out) + 3) + [r.choice(names)]
                yield 'walk', r.choice(['/', '/', '//', '']) + '/'.join(out) + r.choice(['', '', '/', '/.'])
                continue
            k = r.choice([1, 1, 2, 2, 3, 3, 4, 5, 7])
            segs = []
            for _j in range(k):
                x = r.random()
                if x < 0.38:
                    segs.append(r.choice(specials))
                else:
                    segs.append(r.choice(names))
            s = '/'.join(segs)
            x = r.random()
            if x < 0.08:
                s = top + '/' + s  # absolute path into the sandbox
            elif x < 0.12:
                s = '/{TOPREL}/../' + s
            lead = r.choice(['/', '/', '/', '//', '', '/./', '/../', '/../../../../../../../../'])
            tail = r.choice(['', '', '', '/', '/.', '/..', '/index.html'])
            yield 'gen', lead + s + tail


class FakeRequest:
    def __init__(self, uri=b'/', args=None, transport=None, method=b'GET'):
        self.uri = uri
        self.args = args or {}
        self.transport = transport if transport is not None else types.SimpleNamespace()
        self.method = method
        self.headers = {}
        self.code = 200
        self.written = []
        self.finished = 0
        self.redirected = None

    def setHeader(self, k, v):  # noqa: N802
        self.headers[k] = v

    def setResponseCode(self, code, message=None):  # noqa: N802
        self.code = code

    def redirect(self, url):
        self.redirected = url

    def write(self, data):
        self.written.append(data)

    def finish(self):
        self.finished += 1


class FakeFsm:
    """stands in for dawgie.context.fsm: active pipeline, every trigger/waiter is recorded"""

    def __init__(self, fired, active=True):
        self._fired = fired
        self._active = active
        self.state = 'running'
        self.transitioning = types.SimpleNamespace(name='active')

    def is_pipeline_active(self):
        return self._active

    def __getattr__(self, name):
        if name.startswith('_'):
            raise AttributeError(name)

        def rec(*a, **k):
            self._fired.append('fsm.' + name)

        return rec


def observe(roots, fn):
    """independent evaluation of the oracle questions `_static` asks, as driver tables"""
    ids = {}

    def pid(p):
        return ids.setdefault(str(p), len(ids) + 10)

    res, isdir, index, within, isfile = [], [], [], [], []
    seen = set()

    def add(tbl, row):
        key = (id(tbl),) + tuple(row[:-1])
        if key not in seen:
            seen.add(key)
            tbl.append(list(row))

    def failure(e):
        # what the `try` of _static catches is skipped ('E'); anything else leaves the function ('X')
        return 'E' if isinstance(e, (OSError, RuntimeError)) else 'X'

    for i, d in enumerate(roots):
        try:
            rp = (d / fn).resolve(strict=True)
        except Exception as e:  # pylint: disable=broad-except
            add(res, (i, failure(e)))
            continue
        add(res, (i, pid(rp)))
        try:
            isd = rp.is_dir()
        except Exception as e:  # pylint: disable=broad-except
            add(isdir, (pid(rp), failure(e)))
            continue
        add(isdir, (pid(rp), isd))
        cand = rp
        if isd:
            try:
                cand = (rp / 'index.html').resolve(strict=True)
            except Exception as e:  # pylint: disable=broad-except
                add(index, (pid(rp), failure(e)))
                continue
            add(index, (pid(rp), pid(cand)))
        add(within, (pid(cand), i, bool(cand.is_relative_to(d))))
        try:
            add(isfile, (pid(cand), cand.is_file()))
        except Exception:  # pylint: disable=broad-except
            add(isfile, (pid(cand), 'X'))
    line = common.sx(['static', ['roots'] + list(range(len(roots))), ['resolve'] + res, ['isdir'] + isdir,
                      ['index'] + index, ['within'] + within, ['isfile'] + isfile, ['again'] + isfile])
    return line, ids


def call_static(fe, fn, bdir, isdep, active=True):
    """the real `_static`; returns (result bytes | None, exception name | None, opened paths, request)"""
    import dawgie.context
    import dawgie.fe

    opened = []

    def spy(file, *a, **k):
        opened.append(os.fspath(file))
        return builtins.open(file, *a, **k)

    req = FakeRequest(uri=b'/')
    had = hasattr(dawgie.context, 'fsm')
    old = getattr(dawgie.context, 'fsm', None)
    old_fe = dawgie.context.fe_path
    dawgie.context.fsm = FakeFsm([], active)
    dawgie.context.fe_path = fe
    dawgie.fe.open = spy
    try:
        try:
            return dawgie.fe._static(fn, bdir, isdep, req), None, opened, req  # pylint: disable=protected-access
        except Exception as e:  # pylint: disable=broad-except
            return None, type(e).__name__, opened, req
    finally:
        del dawgie.fe.open
        dawgie.context.fe_path = old_fe
        if had:
            dawgie.context.fsm = old
        else:
            del dawgie.context.fsm


def crosses_symlink_loop(roots, fn):
    """some prefix of the request path, below one of the roots, is a looping symlink"""
    segs = fn.lstrip('/').split('/')
    for d in roots:
        for k in range(1, len(segs) + 1):
            raw = os.path.join(d, *segs[:k])
            for p in (raw, os.path.normpath(raw)):
                try:
                    os.stat(p)
                except OSError as e:
                    if e.errno == errno.ELOOP:
                        return True
                except ValueError:
                    pass
    return False


def leaked(sb, data):
    """tokens of files outside both roots that occur in the returned bytes"""
    if not data:
        return []
    return sorted(p for p, t in sb.outside.items() if t in data)


def static_case(sb, res, fe_name, isdep, fn, lines, pending, active=True, tag='gen'):
    from pathlib import Path

    fe = os.path.join(sb.top, fe_name)
    bdir = os.path.join(sb.top, 'site')
    rep = {'kind': 'static', 'tree': [sb.seed, sb.index], 'fe': fe_name, 'isdep': isdep, 'fn': fn,
           'active': active}
    portable = fn
    fn = sb.expand(fn)
    out, exc, opened, _req = call_static(fe, fn, bdir, isdep, active)
    # ---- monitor: by content, and by the realpath of the file that was opened for the request
    bad = leaked(sb, out)
    sig = 'C19:static-escape'
    if (bad or opened) and crosses_symlink_loop([fe, bdir], fn):
        sig = 'C19:static-escape:symlink-loop'  # resolve() handed back a half resolved path
    if bad:
        res.hit(sig,
                f'_static({portable!r}) returned the content of {os.path.relpath(bad[0], sb.top)} '
                f'which is outside both roots (fe, site)', dict(rep, leaked=[os.path.relpath(b, sb.top) for b in bad]))
    elif opened and not sb.inside(os.path.realpath(opened[0])):
        res.hit(sig,
                f'_static({portable!r}) opened {os.path.relpath(os.path.realpath(opened[0]), sb.top)} outside both roots',
                dict(rep, opened=opened[0]))
    if out is not None and not opened and not out.startswith(ERR):
        res.diff('_static returned bytes without opening a file', rep, 'error text', repr(out[:80]))
    # ---- correspondence
    try:
        fnl = fn.lstrip('/')
        roots = [Path(fe).resolve(), Path(bdir).resolve()]
        line, ids = observe(roots, fnl)
    except Exception as e:  # pylint: disable=broad-except
        res.diff('harness could not observe the file system', rep, '', repr(e))
        return
    if opened:
        impl = ['served', str(ids.get(opened[0], opened[0]))]
    elif exc is not None:
        impl = 'raised'
    else:
        impl = 'notfound'
    lines.append(line)
    pending.append(('static', rep, impl))
    kind = impl[0] if isinstance(impl, list) else impl
    res.count('static:' + kind)
    res.count('static:tag:' + tag)
    if '..' in fn:
        res.count('static:has-dotdot')
    if kind == 'served' and isdep and opened[0].endswith('.html'):
        res.count('static:html-inlined' if len(opened) > 1 else 'static:html-plain')
    res.case(('static', sb.index, fe_name, isdep, portable),
             nontrivial=kind == 'served' or '..' in fn or exc is not None,
             sample={'request': portable[:80], 'outcome': kind,
                     'opened': [os.path.relpath(o, sb.top) for o in opened][:3]} if len(fn) < 80 else None)


def static_content_cases(sb, res, r):
    """fe.StaticContent.render with a fake request: the raw `request.uri` goes to `_static`"""
    import dawgie.context
    import dawgie.fe

    old_site, old_fe = dawgie.context.site_path, dawgie.context.fe_path
    had = hasattr(dawgie.context, 'fsm')
    old_fsm = getattr(dawgie.context, 'fsm', None)
    dawgie.context.site_path = os.path.join(sb.top, 'site')
    dawgie.context.fe_path = os.path.join(sb.top, 'fe')
    dawgie.context.fsm = FakeFsm([], True)
    try:
        sc = dawgie.fe.StaticContent()
        uris = [b'/', b'/a.txt', b'/../SECRET.txt', b'/%2e%2e/SECRET.txt', b'/..%2fSECRET.txt', b'//etc/passwd',
                b'/sub_evil', b'/ln_out_file', b'/sub', b'/\xff\xfe', b'/only_site.txt', b'/ln_out_dir/',
                b'/{TOP}/SECRET.txt', b'/%2e%2e/enc.txt', b'/../fe-private/secret.txt']
        gen = [g for t, g in sb.requests(25, r) if t != 'corpus']
        uris += [g.encode('utf-8', 'surrogateescape') for g in gen]
        for puri in uris:
            uri = puri.replace(b'{TOPREL}', sb.top.lstrip('/').encode()).replace(b'{TOP}', sb.top.encode())
            for method in (b'GET', b'HEAD'):
                req = FakeRequest(uri=uri, method=method)
                try:
                    out = sc.render(req)
                except Exception as e:  # pylint: disable=broad-except
                    out = None
                    res.count('StaticContent:raised:' + type(e).__name__)
                rep = {'kind': 'static-content', 'tree': [sb.seed, sb.index], 'uri': list(puri),
                       'method': method.decode()}
                bad = leaked(sb, out)
                if bad:
                    res.hit('C19:static-escape:StaticContent',
                            f'StaticContent.render({uri!r}) returned the content of '
                            f'{os.path.relpath(bad[0], sb.top)} which is outside both roots', rep)
                if method == b'GET' and out is not None and req.code == 200:
                    try:
                        direct = dawgie.fe._static(uri.decode(), os.path.join(sb.top, 'site'), False, FakeRequest())  # pylint: disable=protected-access
                    except Exception:  # pylint: disable=broad-except
                        direct = None
                    if direct != out:
                        res.diff('StaticContent.render_GET vs _static(request.uri.decode())', rep,
                                 repr((direct or b'')[:60]), repr(out[:60]))
                res.count('StaticContent:' + ('500' if req.code == 500 else 'error-text' if out and out.startswith(ERR)
                                              else 'content'))
                res.case(('sc', sb.index, puri, method), nontrivial=False)
    finally:
        dawgie.context.site_path, dawgie.context.fe_path = old_site, old_fe
        if had:
            dawgie.context.fsm = old_fsm
        else:
            del dawgie.context.fsm


def bundled_site_cases(res):
    """the real deprecated site shipped in the repo as second root: files of the package itself
    (one level up) must not come back"""
    import dawgie.context
    import dawgie.fe

    pkg = os.path.dirname(dawgie.fe.__file__)
    outside = {}
    for rel in ('__init__.py', 'basis.py', 'app.py', '../security.py', '../context.py'):
        p = os.path.realpath(os.path.join(pkg, rel))
        if os.path.isfile(p):
            with open(p, 'rb') as fh:
                outside[p] = fh.read()
    tmp = tempfile.mkdtemp(prefix='c19_fe_')
    old_site, old_fe = dawgie.context.site_path, dawgie.context.fe_path
    had = hasattr(dawgie.context, 'fsm')
    old_fsm = getattr(dawgie.context, 'fsm', None)
    dawgie.context.site_path = ''
    dawgie.context.fe_path = tmp
    dawgie.context.fsm = FakeFsm([], True)
    try:
        sc = dawgie.fe.StaticContent()
        for uri in (b'/../__init__.py', b'/../basis.py', b'/../../security.py', b'/../../context.py',
                    b'/stylesheets/../../app.py', b'/' + pkg.encode() + b'/__init__.py', b'/', b'/index.html',
                    b'/pages/pipelines', b'/stylesheets'):
            req = FakeRequest(uri=uri)
            out = sc.render(req)
            for p, body in outside.items():
                if out is not None and body and body in out:
                    res.hit('C19:static-escape:bundled-site',
                            f'StaticContent.render({uri!r}) on the bundled site returned {p}',
                            {'kind': 'bundled', 'uri': list(uri)})
            res.count('bundled:' + ('content' if out and not out.startswith(ERR) else 'refused'))
            res.case(('bundled', uri), nontrivial=False)
    finally:
        dawgie.context.site_path, dawgie.context.fe_path = old_site, old_fe
        if had:
            dawgie.context.fsm = old_fsm
        else:
            del dawgie.context.fsm
        shutil.rmtree(tmp, ignore_errors=True)


def corpus_cases():
    d = os.path.join(common.VERIF, 'corpus', 'C19')
    out = []
    if os.path.isdir(d):
        for f in sorted(os.listdir(d)):
            if f.endswith('.json'):
                with open(os.path.join(d, f)) as fh:
                    out += json.load(fh).get('cases', [])
    return out


def run_static(ctx, res, r, lines, pending, thorough):
    ntrees = 16 if thorough else 4
    nreq = 3000 if thorough else 600
    # minimised past failures first
    trees = {}
    try:
        for c in corpus_cases():
            if c.get('kind') != 'static':
                continue
            key = tuple(c['tree'])
            if key not in trees:
                trees[key] = Sandbox(*key)
            static_case(trees[key], res, c['fe'], c['isdep'], c['fn'], lines, pending, active=c.get('active', True),
                        tag='past-failure')
    finally:
        for sb in trees.values():
            sb.close()
    for index in range(ntrees):
        sb = Sandbox(ctx['seed'], index)
        try:
            rr = common.rng(ctx['seed'], f'C19:req:{index}')
            for tag, fn in sb.requests(nreq, rr):
                fe_name = 'fe' if rr.random() < 0.8 else 'fe_link'
                isdep = rr.random() < 0.4
                try:
                    static_case(sb, res, fe_name, isdep, fn, lines, pending, active=rr.random() < 0.7,
                                tag=tag)
                except UnicodeEncodeError:
                    res.count('static:unencodable-request')
            # every corpus request also with the opposite flags (the historical failures first)
            for fn in ('/../SECRET.txt', '/sub_evil', '/evil', '/ln_out_dir', '/../fe-private/secret.txt',
                       '/index.html', '/pages/pipelines', '/pages/dyn.html', '/pages/nocss.html', '/plain.html'):
                for fe_name in ('fe', 'fe_link'):
                    for isdep in (False, True):
                        for active in (False, True):
                            static_case(sb, res, fe_name, isdep, fn, lines, pending, active=active, tag='corpus')
            static_content_cases(sb, res, rr)
        finally:
            sb.close()
    bundled_site_cases(res)


# ======================================================================== sanction part

HOOKS = {
    # mode -> (value of dawgie.context.sanction_override, what the model is told)
    'default': ('dawgie.security.is_sanctioned', 'default'),
    'allow': ('verif_c19_hooks.allow', 'T'),
    'deny': ('verif_c19_hooks.deny', 'F'),
    'truthy': ('verif_c19_hooks.truthy', 'T'),
    'none': ('verif_c19_hooks.none', 'F'),
    'raise': ('verif_c19_hooks.boom', 'raise'),
    'raise-base': ('verif_c19_hooks.exit', 'raise'),
    'missing-attr': ('verif_c19_hooks.nope', 'raise'),
    'missing-mod': ('verif_c19_no_such_module.f', 'raise'),
    'bad-name': ('nodots', 'raise'),
    'wrong-arity': ('verif_c19_hooks.arity', 'raise'),
}
FAIL_MODES = [m for m, (_o, t) in HOOKS.items() if t == 'raise']


def install_hooks():
    m = types.ModuleType('verif_c19_hooks')

    def boom(endpoint, cert):
        raise RuntimeError('hook failure')

    def bye(endpoint, cert):
        raise SystemExit(3)

    m.allow = lambda endpoint, cert: True
    m.deny = lambda endpoint, cert: False
    m.truthy = lambda endpoint, cert: 'yes'
    m.none = lambda endpoint, cert: None
    m.boom = boom
    m.exit = bye
    m.arity = lambda endpoint: True
    sys.modules['verif_c19_hooks'] = m


class FakeCert:
    def get_serial_number(self):
        return 0x1234


KEYDIRS = {
    # label -> [(common name, days since notBefore, life time in days)]: dawgie.public.pem.<name> files of one
    # guest key directory, generated for real and loaded by the real security._tls_initialize
    'fresh': [('alice', 30, 365)],
    'mixed': [('alice', 30, 365), ('bob', 730, 365)],  # one valid, one lapsed a year ago
    'lapsed': [('bob', 730, 365), ('carol', 366, 365)],  # every configured certificate has expired
    'lapsed-1d': [('dora', 31, 30)],  # the only certificate expired yesterday
    'future': [('erin', -2, 365)],  # not valid yet
}


def describe(clients):
    if not clients:
        return 'no client certificates configured'
    label = 'fresh' if clients is True else clients
    spec = KEYDIRS.get(label, [])
    lapsed = sum(1 for _n, age, life in spec if age > life)
    return (f'key directory "{label}": {len(spec)} client certificate(s) configured, {lapsed} of them past '
            f'their notAfter date')


def make_pem(name, age_days, life_days):
    import datetime

    from cryptography import x509
    from cryptography.hazmat.primitives import hashes, serialization
    from cryptography.hazmat.primitives.asymmetric import ec
    from cryptography.x509.oid import NameOID

    start = datetime.datetime.now(datetime.timezone.utc) - datetime.timedelta(days=age_days)
    key = ec.generate_private_key(ec.SECP256R1())
    who = x509.Name([x509.NameAttribute(NameOID.COMMON_NAME, name)])
    cert = (x509.CertificateBuilder().subject_name(who).issuer_name(who).public_key(key.public_key())
            .serial_number(x509.random_serial_number()).not_valid_before(start)
            .not_valid_after(start + datetime.timedelta(days=life_days)).sign(key, hashes.SHA256()))
    return cert.public_bytes(serialization.Encoding.PEM)


class Env:
    """configuration of the real security module for one grid point.

    `clients` is False (nothing configured) or the label of a key directory of KEYDIRS (True = 'fresh'):
    real PEM files written to a temp directory and loaded once by the real `security._tls_initialize`;
    the loaded list is then put back into `security._certs` for each grid point."""

    def __init__(self):
        import dawgie.context
        import dawgie.security

        self.context, self.security = dawgie.context, dawgie.security
        sec = dawgie.security
        self.saved = (list(sec._certs), dawgie.context.sanction_override,  # pylint: disable=protected-access
                      dict(sec._myself), dict(sec._system))  # pylint: disable=protected-access
        install_hooks()
        self.loaded = {}
        self.real_pems = True
        self.top = tempfile.mkdtemp(prefix='c19_keys_')
        try:
            for label, spec in KEYDIRS.items():
                d = os.path.join(self.top, label)
                os.makedirs(d)
                for name, age, life in spec:
                    with open(os.path.join(d, 'dawgie.public.pem.' + name), 'wb') as fh:
                        fh.write(make_pem(name, age, life))
                sec._tls_initialize(d)  # pylint: disable=protected-access
                self.loaded[label] = list(sec._certs)  # pylint: disable=protected-access
                if len(self.loaded[label]) != len(spec):
                    raise RuntimeError(f'{label}: {len(self.loaded[label])} of {len(spec)} certificates loaded')
        except Exception:  # pylint: disable=broad-except
            # no way to make real certificates here: fall back to opaque objects (counted in the evidence)
            self.real_pems = False
            self.loaded = {label: [FakeCert() for _ in spec] for label, spec in KEYDIRS.items()}
        self._restore_tls()

    def _restore_tls(self):
        sec = self.security
        sec._certs[:] = self.saved[0]  # pylint: disable=protected-access
        sec._myself.clear()  # pylint: disable=protected-access
        sec._myself.update(self.saved[2])  # pylint: disable=protected-access
        sec._system.clear()  # pylint: disable=protected-access
        sec._system.update(self.saved[3])  # pylint: disable=protected-access

    def set(self, clients, mode):
        label = 'fresh' if clients is True else clients
        self.security._certs[:] = list(self.loaded[label]) if label else []  # pylint: disable=protected-access
        self.context.sanction_override = HOOKS[mode][0]

    def restore(self):
        self._restore_tls()
        self.context.sanction_override = self.saved[1]
        sys.modules.pop('verif_c19_hooks', None)
        shutil.rmtree(self.top, ignore_errors=True)


def registry():
    """every DynamicContent reachable in the real route tree: [(path, resource)]"""
    import dawgie.fe  # noqa: F401  pylint: disable=unused-import
    import dawgie.fe.basis as basis

    out = []

    def walk(point, pre):
        for k, v in point.children.items():
            path = pre + '/' + k.decode()
            if isinstance(v, basis.DynamicContent):
                out.append((path, v))
            elif hasattr(v, 'children'):
                walk(v, path)

    walk(basis._root, '')  # pylint: disable=protected-access
    return out


def dc_uri(dc):
    return dc._DynamicContent__uri  # pylint: disable=protected-access


def dc_methods(dc):
    return [m.name for m in dc._DynamicContent__methods]  # pylint: disable=protected-access


def codes(s):
    return [ord(c) for c in s]


def last_segment(uri):
    return uri.rstrip('/').rsplit('/', 1)[-1]


def transport_of(certkind, cert):
    if certkind == 'noattr':
        return types.SimpleNamespace()
    if certkind == 'none':
        return types.SimpleNamespace(getPeerCertificate=lambda: None)
    return types.SimpleNamespace(getPeerCertificate=lambda: cert)


RENDER = {'GET': 'render_GET', 'POST': 'render_POST', 'PUT': 'render_PUT', 'DEL': 'render_DELETE'}


def render_recorded(env, dc, method, clients, certkind, mode, args=None):
    """one real DynamicContent.render_<METHOD> with a recording handler in place of the registered
    function; returns the observed event list and what `security.sanctioned` says by itself"""
    import dawgie.security as security

    cert = FakeCert()
    tr = transport_of(certkind, cert)
    env.set(clients, mode)
    events = []
    real = security.sanctioned
    seen = {}

    def spy(endpoint, c):
        ok = real(endpoint, c)
        events.append('checkedT' if ok else 'checkedF')
        seen['endpoint'], seen['cert'] = endpoint, c
        return ok

    def handler(**kw):
        events.append('handler')
        return b'{}'

    fnc = dc._DynamicContent__fnc  # pylint: disable=protected-access
    # what the property demands for this request: a failing hook denies; otherwise the decision of
    # security.sanctioned itself (evaluated here, outside __render)
    expected_ok = False if mode in FAIL_MODES else bool(real(dc_uri(dc), cert if certkind == 'cert' else None))
    if mode == 'default' and clients and certkind != 'cert' and last_segment(dc_uri(dc)) in COMMAND_WORDS:
        expected_ok = False  # the property text: certificates configured, none presented, a command
    security.sanctioned = spy
    dc._DynamicContent__fnc = handler  # pylint: disable=protected-access
    try:
        req = FakeRequest(uri=dc_uri(dc).encode(), args=args or {b'x': [b'1']}, transport=tr,
                          method=method.encode())
        try:
            out = getattr(dc, RENDER[method])(req)
        except Exception as e:  # pylint: disable=broad-except
            out = None
            events.append('raised:' + type(e).__name__)
    finally:
        security.sanctioned = real
        dc._DynamicContent__fnc = fnc  # pylint: disable=protected-access
    if out is not None and 'handler' not in events:
        try:
            body = json.loads(out.decode())
        except Exception:  # pylint: disable=broad-except
            body = {}
        msg = str(body.get('message', ''))
        if 'requires a client certficate' in msg or body.get('alert_status') == 'danger':
            events.append('denied')
        elif 'is not mapped to HTTP method' in msg:
            events.append('methoderror')
        else:
            events.append('other-response')
    return events, expected_ok, seen, (cert if certkind == 'cert' else None)


def render_verdict(res, rep, events, ok):
    """monitor for one __render run with a recording handler"""
    if 'handler' in events and not ok:
        uri, mode = rep['uri'], rep['hook']
        sig = ('C19:anon-command:' + uri if (mode == 'default' and last_segment(uri) in COMMAND_WORDS)
               else 'C19:hook-fail-open' if mode in FAIL_MODES
               else 'C19:handler-unsanctioned')
        why = ('the access hook fails' if mode in FAIL_MODES
               else 'the caller presented no certificate' if sig.startswith('C19:anon-command')
               else 'security.sanctioned refuses the request')
        res.hit(sig, f"{RENDER[rep['method']]} of {uri} ran the handler although {why} "
                     f"({describe(rep['clients'])}; certificate={rep['certkind']}, hook={mode})", rep)


class Spies:
    """recording stand-ins for everything that changes the pipeline"""

    def __init__(self):
        import dawgie.context
        import dawgie.db
        import dawgie.fe.api.submit
        import dawgie.fe.submit
        import dawgie.pl.farm
        import dawgie.pl.schedule
        import dawgie.pl.snapshot
        import twisted.internet.threads

        self.fired = []
        fired = self.fired
        self.undo = []

        def patch(obj, name, val):
            had = hasattr(obj, name)
            old = getattr(obj, name, None)
            setattr(obj, name, val)
            self.undo.append((obj, name, had, old))

        def rec(label, ret=None):
            def f(*a, **k):
                fired.append(label)
                return ret

            return f

        patch(dawgie.context, 'fsm', FakeFsm(fired, True))
        for name in ('organize', 'build', 'update', 'complete', 'purge', 'defer', 'pause', 'unpause',
                     'next_job_batch'):
            patch(dawgie.pl.schedule, name, rec('schedule.' + name))
        patch(dawgie.pl.snapshot, 'grab', rec('snapshot.grab', {}))
        for name in ('clear', 'dispatch', 'plow', 'notify_all'):
            patch(dawgie.pl.farm, name, rec('farm.' + name))
        patch(dawgie.pl.farm, 'ARCHIVE', False)
        self.farm = dawgie.pl.farm

        class Process:
            def __init__(self, *a, **k):
                fired.append('submit.Process')

            def step_0(self):
                fired.append('submit.step_0')

        patch(dawgie.fe.submit, 'Process', Process)
        patch(dawgie.fe.api.submit, 'Process', Process)

        mutating_db = {'add', 'archive', 'close', 'copy', 'open', 'promote', 'remove', 'reopen', 'reset', 'update',
                       'connect', 'gather', 'retreat'}

        class FakeDb:
            def __getattr__(self, name):
                def f(*a, **k):
                    if name in mutating_db:
                        fired.append('db.' + name)
                    if name == 'next':
                        return 7
                    if name == 'search':
                        raise RuntimeError('no search engine in the harness')
                    return []

                return f

        patch(dawgie.db, '_db_in_use', lambda: FakeDb())

        def defer_to_thread(*a, **k):
            import twisted.internet.defer

            return twisted.internet.defer.Deferred()

        patch(twisted.internet.threads, 'deferToThread', defer_to_thread)

    def take(self):
        out = list(self.fired)
        if self.farm.ARCHIVE:
            out.append('farm.ARCHIVE')
            self.farm.ARCHIVE = False
        del self.fired[:]
        return out

    def restore(self):
        for obj, name, had, old in reversed(self.undo):
            if had:
                setattr(obj, name, old)
            else:
                delattr(obj, name)


RICH_ARGS = {
    b'archive': [b'true'], b'runnables': [b'task.alg'], b'tasks': [b'task.alg'], b'targets': [b'T1'],
    b'changeset': [b'abc123'], b'submission': [b'now'], b'fullname': [b'1.T1.task.alg.sv'], b'form': [b'html'],
    b'node_name': [b'task.alg'], b'index': [b'0'], b'limit': [b'2'], b'key': [b'a'], b'levels': [b'ERROR'],
    b'after': [b'2024-01-01T00:00:00'], b'runids': [b'1'],
}


def render_real(env, dc, method, clients, certkind, spies):
    """the registered resource with its REAL handler; mutators are recorders"""
    env.set(clients, 'default')
    tr = transport_of(certkind, FakeCert())
    fnc = dc._DynamicContent__fnc  # pylint: disable=protected-access
    if hasattr(fnc, 'clear'):
        fnc.clear()  # submit.Defer: not busy
    req = FakeRequest(uri=dc_uri(dc).encode(), args=dict(RICH_ARGS), transport=tr, method=method.encode())
    spies.take()
    try:
        getattr(dc, RENDER[method])(req)
    except Exception:  # pylint: disable=broad-except
        pass
    if hasattr(fnc, 'clear'):
        fnc.clear()
    return spies.take()


def run_sanction(ctx, res, lines, pending, thorough):
    import dawgie.security as security

    env = Env()
    try:
        reg = registry()
        uris = [dc_uri(dc) for _p, dc in reg]
        # ---- the generated tables against the running registry
        lines.append(common.sx(['table']))
        pending.append(('table', [[u, sorted(dc_methods(dc))] for u, (_p, dc) in zip(uris, reg)], None))
        try:
            from tools import gen_c19

            listed = list(gen_c19.facts(common.REPO)['all_access'])
        except Exception:  # pylint: disable=broad-except
            listed = []  # the translator reports its own failure; the grid below still runs
        lines.append(common.sx(['allaccess']))
        pending.append(('allaccess', listed, None))
        for (path, dc) in reg:
            if path != dc_uri(dc):
                res.diff('route tree path differs from the uri handed to the sanction check', path, path, dc_uri(dc))
        # ---- grid 1: is_sanctioned / sanctioned, every endpoint string x clients x cert x hook
        extra = ['', '/', '/api/cmd/run/', '/api/cmd/run/x', '/API/CMD/RUN', 'api/cmd/run', '/api/cmd',
                 '/app/db/item/../../reset', '/api/ae/name/', '/api/ae/name?x=/api/cmd/run', ' /api/ae/name',
                 '/app/run ', '/app/unknown', '/api/ae/name\n/api/cmd/run']
        strangers_ok = []
        res.count('key directories: ' + ('real PEM certificates' if env.real_pems else 'OPAQUE FALLBACK'))
        keydirs = [False] + list(KEYDIRS)
        for e in uris + extra + [x for x in listed if x not in uris]:
            for clients in keydirs:
                for has_cert in (False, True):
                    cert = FakeCert() if has_cert else None
                    env.set(clients, 'default')
                    try:
                        direct = bool(security.is_sanctioned(e, cert))
                    except Exception as ex:  # pylint: disable=broad-except
                        direct = 'raised:' + type(ex).__name__
                    lines.append(common.sx(['is', bool(clients), has_cert, codes(e)]))
                    pending.append(('is', {'endpoint': e, 'clients': clients, 'cert': has_cert}, direct))
                    res.count('is_sanctioned:' + str(direct))
                    res.case(('is', e, clients, has_cert), nontrivial=bool(clients) and not has_cert)
                    if clients and not has_cert and direct is True:
                        strangers_ok.append(e)
                    # monitor: the commands named by the property are never open to a stranger
                    if clients and not has_cert and e in uris and last_segment(e) in COMMAND_WORDS and direct is True:
                        res.hit('C19:anon-command:' + e,
                                f'is_sanctioned({e!r}, None) is True with client certificates configured '
                                f'({describe(clients)}): a stranger may invoke {last_segment(e)}',
                                {'kind': 'sanction', 'endpoint': e, 'clients': clients, 'cert': False,
                                 'hook': 'default'})
                    for mode, (_ov, told) in HOOKS.items():
                        env.set(clients, mode)
                        try:
                            got = bool(security.sanctioned(e, cert))
                        except BaseException as ex:  # pylint: disable=broad-except
                            got = 'raised:' + type(ex).__name__
                        # monitor: an error inside the hook (or in finding it) denies access
                        if told == 'raise' and got is True:
                            res.hit('C19:hook-fail-open',
                                    f'security.sanctioned({e!r}, {"cert" if has_cert else None}) = {got} although '
                                    f'the access hook fails ({mode})',
                                    {'kind': 'sanction', 'endpoint': e, 'clients': clients, 'cert': has_cert,
                                     'hook': mode})
                        pending.append(('wrap', {'endpoint': e, 'clients': clients, 'cert': has_cert, 'hook': mode},
                                        (told, got)))
                        lines.append(common.sx(['wrap', told]) if told != 'default'
                                     else common.sx(['is', bool(clients), has_cert, codes(e)]))
                        res.count('sanctioned:' + mode + ':' + str(got))
        res.count('anonymous-open-endpoints', len([e for e in strangers_ok if e in uris]))
        # ---- grid 2: every registered resource x method x clients x certificate kind x hook,
        #      real __render with a recording handler
        modes = list(HOOKS) if thorough else ['default', 'allow', 'deny', 'raise', 'missing-mod', 'raise-base']
        dirs2 = keydirs if thorough else [False, 'fresh', 'lapsed']
        for _p, dc in reg:
            uri = dc_uri(dc)
            for method in RENDER:
                for clients in dirs2:
                    for certkind in ('noattr', 'none', 'cert'):
                        for mode in modes:
                            events, ok, seen, cert = render_recorded(env, dc, method, clients, certkind, mode)
                            rep = {'kind': 'render', 'uri': uri, 'method': method, 'clients': clients,
                                   'certkind': certkind, 'hook': mode}
                            render_verdict(res, rep, events, ok)
                            if seen and (seen.get('endpoint') != uri or seen.get('cert') is not cert):
                                res.diff('__render hands a different endpoint/certificate to the check', rep,
                                         [uri, certkind], [seen.get('endpoint'), repr(seen.get('cert'))])
                            lines.append(common.sx(['req', codes(uri), method, bool(clients), certkind == 'cert',
                                                    HOOKS[mode][1]]))
                            pending.append(('req', rep, events))
                            res.count('render:' + '+'.join(events))
                            res.case(('render', uri, method, clients, certkind, mode),
                                     nontrivial=bool(clients) and certkind != 'cert',
                                     sample=rep if (clients and 'denied' in events) else None)
        # ---- grid 3: the real handlers under recording mutators
        spies = Spies()
        try:
            dyn = {}
            for _p, dc in reg:
                uri = dc_uri(dc)
                for method in RENDER:
                    for clients in (list(KEYDIRS) if thorough else ['fresh', 'mixed', 'lapsed']):
                        for certkind in ('noattr', 'none'):
                            fired = render_real(env, dc, method, clients, certkind, spies)
                            res.count('real-handler:anonymous:' + clients + ':' + ('mutated' if fired else 'quiet'))
                            res.case(('real', uri, method, clients, certkind), nontrivial=True)
                            if fired:
                                res.hit('C19:anon-command:' + uri,
                                        f'{method} {uri} without a certificate ({describe(clients)}) reached '
                                        f'{", ".join(sorted(set(fired)))}',
                                        {'kind': 'real', 'uri': uri, 'method': method, 'certkind': certkind,
                                         'clients': clients})
                    fired = render_real(env, dc, method, 'fresh', 'cert', spies)
                    if fired:
                        dyn.setdefault(uri, set()).update(fired)
                    res.count('real-handler:authorised:' + ('mutated' if fired else 'quiet'))
            pending.append(('dynamic', {u: sorted(v) for u, v in dyn.items()}, uris))
            lines.append(common.sx(['table']))
        finally:
            spies.restore()
    finally:
        env.restore()


# ======================================================================== driver comparison

def decode(xs):
    return ''.join(chr(int(c)) for c in xs)


def compare(res, lines, pending):
    outs = common.driver(lines, 'C19')
    for (kind, case, impl), o in zip(pending, outs):
        model = common.parse_sx(o)
        if kind == 'static':
            if model != impl:
                res.diff('Static.static vs fe._static (which file is opened)', case, model, impl)
        elif kind == 'is':
            if model != ('T' if impl is True else 'F' if impl is False else impl):
                res.diff('Generated isSanctioned vs security.is_sanctioned', case, model, impl)
        elif kind == 'wrap':
            told, got = impl
            if model != ('T' if got is True else 'F' if got is False else got):
                res.diff('Sanction.sanctioned vs security.sanctioned', case, model, got)
        elif kind == 'req':
            if model != impl:
                res.diff('Sanction.request vs DynamicContent.__render', case, model, impl)
        elif kind == 'table':
            got = sorted([decode(row[0]), sorted(row[1])] for row in model)
            if got != sorted(case):
                res.diff('generated `registered` vs the running route tree', 'table',
                         [g for g in got if g not in case], [c for c in case if c not in got])
        elif kind == 'allaccess':
            res.count('allAccess entries', len(model))
            if case and [decode(m) for m in model] != case:
                res.diff('Generated allAccess is not the list in the source', 'allaccess',
                         [decode(m) for m in model][:5], case[:5])
        elif kind == 'dynamic':
            table = {decode(row[0]): row[2] == 'T' for row in model}
            for u in impl:
                d = bool(case.get(u))
                if table.get(u) != d:
                    res.diff('generated `mutating` vs mutators reached by the real handler (authorised request)',
                             u, table.get(u), case.get(u, []))
                if last_segment(u) in COMMAND_WORDS and not table.get(u):
                    res.diff('an endpoint named by the property is not classified as a command', u, False, True)
            res.count('commands (dynamic)', len([u for u in impl if case.get(u)]))
    res.traces = len(pending)


# ======================================================================== entry points

def run(ctx, res):
    thorough = ctx['tier'] == 'thorough' or ctx['escalate']
    r = common.rng(ctx['seed'], 'C19')
    res.rule = ('static: generated sandbox trees (two roots, files, directories with/without index.html, symlinks '
                'to files and directories inside and outside, a symlinked root); request paths from a corpus of '
                'jail-break shapes plus random mixes of .., ., empty, %2e%2e, absolute and symlink segments; each is '
                'given to the real _static and (with the observed resolve/is_dir/is_file/is_relative_to answers) to '
                'the Lean model; non-trivial = a file was served, the path contains .., or the call raised. '
                'sanction: full grid endpoint x method x clients x certificate x hook on the real functions and on '
                'every registered resource; non-trivial = clients configured and no certificate.')
    res.assumptions = list(TRUSTED)
    lines, pending = [], []
    logging.disable(logging.CRITICAL)
    try:
        run_static(ctx, res, r, lines, pending, thorough)
        run_sanction(ctx, res, lines, pending, thorough)
    finally:
        logging.disable(logging.NOTSET)
    if ctx['lean']:
        compare(res, lines, pending)


def replay(rep, res):
    inp = rep['input']
    kind = inp['kind']
    logging.disable(logging.CRITICAL)
    try:
        if kind == 'static':
            sb = Sandbox(*inp['tree'])
            try:
                static_case(sb, res, inp['fe'], inp['isdep'], inp['fn'], [], [], active=inp.get('active', True),
                            tag='replay')
            finally:
                sb.close()
        elif kind == 'static-content':
            sb = Sandbox(*inp['tree'])
            try:
                import dawgie.context
                import dawgie.fe

                old = dawgie.context.site_path, dawgie.context.fe_path
                dawgie.context.site_path = os.path.join(sb.top, 'site')
                dawgie.context.fe_path = os.path.join(sb.top, 'fe')
                try:
                    uri = bytes(inp['uri']).replace(b'{TOPREL}', sb.top.lstrip('/').encode()).replace(
                        b'{TOP}', sb.top.encode())
                    out = dawgie.fe.StaticContent().render(FakeRequest(uri=uri, method=inp['method'].encode()))
                finally:
                    dawgie.context.site_path, dawgie.context.fe_path = old
                bad = leaked(sb, out)
                if bad:
                    res.hit('C19:static-escape:StaticContent', 'StaticContent.render returned the content of '
                            + os.path.relpath(bad[0], sb.top) + ' which is outside both roots', inp)
            finally:
                sb.close()
        elif kind == 'bundled':
            bundled_site_cases(res)
        elif kind == 'sanction':
            import dawgie.security as security

            env = Env()
            try:
                env.set(inp['clients'], inp['hook'])
                cert = FakeCert() if inp['cert'] else None
                try:
                    got = bool(security.sanctioned(inp['endpoint'], cert))
                except BaseException as e:  # pylint: disable=broad-except
                    got = 'raised:' + type(e).__name__
                if inp['hook'] in FAIL_MODES and got is True:
                    res.hit('C19:hook-fail-open', f'security.sanctioned = {got} although the access hook fails', inp)
                if inp['hook'] == 'default' and inp['clients'] and not inp['cert'] and got is True \
                        and last_segment(inp['endpoint']) in COMMAND_WORDS:
                    res.hit('C19:anon-command:' + inp['endpoint'],
                            'a stranger is sanctioned for ' + inp['endpoint'], inp)
            finally:
                env.restore()
        elif kind in ('render', 'real'):
            env = Env()
            try:
                for _p, dc in registry():
                    if dc_uri(dc) != inp['uri']:
                        continue
                    if kind == 'render':
                        events, ok, _seen, _c = render_recorded(env, dc, inp['method'], inp['clients'],
                                                                inp['certkind'], inp['hook'])
                        render_verdict(res, inp, events, ok)
                    else:
                        spies = Spies()
                        try:
                            fired = render_real(env, dc, inp['method'], inp.get('clients', True), inp['certkind'],
                                                spies)
                        finally:
                            spies.restore()
                        if fired:
                            res.hit('C19:anon-command:' + inp['uri'],
                                    f"{inp['method']} {inp['uri']} without a certificate "
                                    f"({describe(inp.get('clients', True))}) reached "
                                    + ', '.join(sorted(set(fired))), inp)
            finally:
                env.restore()
    finally:
        logging.disable(logging.NOTSET)
