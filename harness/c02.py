"""C02 — see harness/sched_run.py (shared scheduler histories, monitors and correspondence)."""
from . import sched_run

LEAN_TARGETS = ['DawgieVerif.Model.SchedIO', 'DawgieVerif.Model.ReprocessIO']
TRUSTED = sched_run.TRUSTED
MANIFEST = dict(
    text='Lean theorems. (1) Scheduling clauses over Model/Sched.lean, for every state and report: update_complete (every direct dependent declaring a reported-new value as input, and every feedback consumer, gets the affected target(s) pending and is queued), update_minimal and growth_has_cause (pending work grows only by an explicit/versions request naming the node, a timer event naming it, or a success report with a new value it consumes), released_was_pending, pending_keeps_newest_run / pending_fresh_request_stays (pending work is never moved back to an older run id). (2) The consequence clause over Model/Reprocess.lean (scheduler + what released units do to the store, with read / write / reply of one execution as separate steps that interleave freely with requests, timers, source-data changes and other units): stale_is_scheduled (invariant for EVERY valid history of any length: each unit is fresh, or its source data is marked changed, or it is released and has not stored yet, or it is pending, or a report that makes it pending is on its way), quiescent_fresh / quiescent_fresh_from (at quiescence the latest stored content of every value equals a from-scratch run in dependency order), scratch_independent, quiet_dispatch_noop; eventually_fresh (Props/C02Live: on an acyclic feedback-free engine, from any reachable state with nothing in flight, executing everything that is released round after round makes the pipeline quiescent after depth+1 rounds AND leaves the from-scratch results in the store; the scheduler part of such a world round is a round of C04.quiesces for some answers). Tied to the real code twice: op-by-op correspondence of Model/Sched with schedule/farm, and op-by-op correspondence of Model/Reprocess with the end-to-end path of harness/c02_e2e.py (real scanner, Construct, scheduler, farm message, the real pl.worker.cluster.execute on in-memory sockets, Context.run, Task.do / Analysis.do loads and aspects, shelve store with digest novelty, new-value report, Hand.dataReceived/_res; engines with tasks and analyses), including REAL overlaps (an algorithm that has loaded and not yet stored while its roots are re-run and report), slow units and source data arriving at any time; the driver prints the hypotheses of the theorem (worker protocol, load hypothesis, novelty premise) as Booleans for every real history.',
    note="quiescent_fresh assumes (SemOk) deterministic algorithms that read nothing but their declared inputs and their own source data, one author per value, no algorithm consuming its own output, units are (task, target) and (analysis, all-targets marker) with a fixed target set (no regressions: they read across run ids), every run succeeds, one ds.update() per execution (check-pointing algorithms are covered by the end-to-end monitor only), and the load hypothesis: Interface._load goes by run id (own run id first, else latest); versions are not modelled, the hypothesis is that a load finds the latest stored contents or the unit is pending again -- evaluated on every real history by the driver (it failed on the unrepaired code: fixed finding b49fd37). The end-to-end monitor (independent of the model) compares the real store read back at every quiescence with a from-scratch evaluation, for check-pointing engines too. Target names contain no '.'. Trusted base as C01 plus harness/c02_e2e.py stubs (sockets, Context.abort, fsm, chronicle, md5sum/sha1sum sub-processes -> hashlib).",
    technique='Lean 4 proof: decision logic stated outright + invariant by induction over all op sequences of a scheduler/store world + uniqueness of the consistent store; two differential correspondences',
    design='7/C02',
)
WANT = {'C02'}


def run(ctx, res):
    sched_run.run_all(ctx, res, WANT, 'C02')
    # end to end: scheduler -> farm message -> real worker Context.run -> real shelve store ->
    # new-value report -> scheduler; stored results at quiescence vs a from-scratch evaluation
    from . import c02_e2e
    c02_e2e.run(ctx, res)


def replay(rep, res):
    if str(rep.get('sig', '')).startswith('C02:e2e'):
        from . import c02_e2e
        c02_e2e.replay(rep, res)
    else:
        sched_run.replay_case(rep, res, WANT)
