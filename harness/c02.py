"""C02 — see harness/sched_run.py (shared scheduler histories, monitors and correspondence)."""
from . import sched_run

LEAN_TARGETS = ['DawgieVerif.Model.SchedIO']
TRUSTED = sched_run.TRUSTED
MANIFEST = dict(
    text='Lean theorems over Model/Sched.lean for the scheduling clauses: update_complete (every direct dependent declaring a reported-new value as input, and every feedback consumer, gets the affected target(s) pending and is queued), update_minimal and growth_has_cause (in every step pending work grows only by an explicit/versions request naming the node, a timer event naming it, or a success report with a new value it consumes), released_was_pending. Tied to the real schedule.update/organize and farm.Hand._res by op-by-op correspondence; the monitor checks each real success report against the declared inputs of the synthetic engine.',
    note="PARTIAL: the consequence 'stored results at quiescence equal a from-scratch run' (quiescent_fresh) is NOT proved as a theorem; it is checked on the real scheduler by the epoch scenario (deterministic digest-valued algorithms, a reference content-addressed store deciding novelty, root re-runs, comparison with a from-scratch evaluation at quiescence) on every feedback-free shape; transitivity is obtained by applying the step theorems to every later report, not stated as one theorem. Target names contain no '.' (schedule.update recovers the target with split('.')). Trusted base as C01.",
    technique='Lean 4 proof: decision logic of update/organize stated outright, case analysis over all ops + differential correspondence',
    design='7/C02',
)
WANT = {'C02'}


def run(ctx, res):
    sched_run.run_all(ctx, res, WANT, 'C02')


def replay(rep, res):
    sched_run.replay_case(rep, res, WANT)
