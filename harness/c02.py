"""C02 — see harness/sched_run.py (shared scheduler histories, monitors and correspondence)."""
from . import sched_run

LEAN_TARGETS = ['DawgieVerif.Model.SchedIO']
TRUSTED = sched_run.TRUSTED
MANIFEST = dict(
    text='Lean theorems over Model/Sched.lean for the scheduling clauses: update_complete (every direct dependent declaring a reported-new value as input, and every feedback consumer, gets the affected target(s) pending and is queued), update_minimal and growth_has_cause (in every step pending work grows only by an explicit/versions request naming the node, a timer event naming it, or a success report with a new value it consumes), released_was_pending. Tied to the real schedule.update/organize and farm.Hand._res by op-by-op correspondence; the monitor checks each real success report against the declared inputs of the synthetic engine.',
    note="PARTIAL: the consequence 'stored results at quiescence equal a from-scratch run' (quiescent_fresh) is NOT proved as a theorem; it is checked (a) end to end by harness/c02_e2e.py: real scanner/Construct/scheduler/farm, real worker Context.run and Task.do, real shelve store through the loop-back with novelty from the stored digests, task engines with value-level inputs and check-pointing algorithms, root re-runs, read-back through the real load path at every quiescence against a from-scratch evaluation, plus an execution log for needless re-runs; (b) on the real scheduler by the epoch scenario (deterministic digest-valued algorithms, a reference content-addressed store deciding novelty, root re-runs, comparison with a from-scratch evaluation at quiescence) on every feedback-free shape; transitivity is obtained by applying the step theorems to every later report, not stated as one theorem. Target names contain no '.' (schedule.update recovers the target with split('.')). Trusted base as C01.",
    technique='Lean 4 proof: decision logic of update/organize stated outright, case analysis over all ops + differential correspondence',
    design='7/C02',
)
WANT = {'C02'}


def run(ctx, res):
    sched_run.run_all(ctx, res, WANT, 'C02')
    # end to end: scheduler -> farm message -> real worker Context.run -> real shelve store ->
    # new-value report -> scheduler; stored results at quiescence vs a from-scratch evaluation
    from . import c02_e2e
    c02_e2e.run(ctx, res)


def replay(rep, res):
    if str(rep.get('sig', '')).startswith('C02:e2e'):
        from . import c02_e2e
        c02_e2e.replay(rep, res)
    else:
        sched_run.replay_case(rep, res, WANT)
