"""C03 — see harness/sched_run.py (shared scheduler histories, monitors and correspondence)."""
from . import sched_run

LEAN_TARGETS = ['DawgieVerif.Model.SchedIO']
TRUSTED = sched_run.TRUSTED
WANT = {'C03'}


def run(ctx, res):
    sched_run.run_all(ctx, res, WANT, 'C03')


def replay(rep, res):
    sched_run.replay_case(rep, res, WANT)
