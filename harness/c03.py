"""C03 — see harness/sched_run.py (shared scheduler histories, monitors and correspondence)."""
from . import sched_run

LEAN_TARGETS = ['DawgieVerif.Model.SchedIO']
TRUSTED = sched_run.TRUSTED
MANIFEST = dict(
    text="Lean theorems over Model/Sched.lean for every protocol-conforming history (ValidRun: a worker answers only for a unit in flight; '__all__' is not a target name): one_at_a_time (the list of units in flight never contains a duplicate), executing_iff_inflight (doing sets = units in flight), never_released_while_executing (also after a new request for an executing unit), one_message_per_release (the task messages queued by a dispatch are, by (job,target), exactly the released units, each once), result_applied_once (a result for a unit in flight finds its job, appends exactly one history entry, leaves flight; propagation is C02/C05). Invariants Inv (6 clauses) and Inv2 (6 clauses) by induction over op lists. Tied by op-by-op correspondence with the real schedule/farm; the monitor counts executions in flight per unit and checks every injected reply against history growth.",
    note='Worker hand-over (a message goes to at most one worker, crew view) is proved and tied under C11. Replies for work released before a reload are out of scope (DESIGN 5.1). Three genuine defects found by this check were repaired in /repo (fix: commits ed37f02, a21bfb0, f11961d). Trusted base as C01.',
    technique='Lean 4 proof: two invariants by induction over protocol-conforming histories + differential correspondence',
    design='7/C03',
)
WANT = {'C03'}


def run(ctx, res):
    sched_run.run_all(ctx, res, WANT, 'C03')
    # the same clauses on the end-to-end path: real farm messages, the real worker (pl.worker.cluster.execute),
    # the real store and run ids from the real db.next(); REAL overlaps of executions
    from . import c02_e2e, c05_e2e
    c02_e2e.run_monitors(ctx, res, WANT)
    # ... and with runs that fail, report invalid data or kill the worker's run() (sys.exit, KeyboardInterrupt)
    c05_e2e.run(ctx, res, want=tuple(WANT))


def replay(rep, res):
    if ':e2e-' in str(rep.get('sig', '')):
        from . import c02_e2e, c05_e2e
        inp = rep.get('input', rep)
        if 'failures' in inp.get('scenario', {}) or inp.get('kind') == 'e2e-fail':
            c05_e2e.replay(rep, res, want=tuple(WANT))
        else:
            c02_e2e.replay_monitors(rep, res, WANT)
    else:
        sched_run.replay_case(rep, res, WANT)
