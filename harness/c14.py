"""C14 — correspondence + monitor for the frame reassembly loops and the legacy handshake.

Real code driven: pl.farm.Hand.dataReceived, db.shelve.comms.Worker.dataReceived,
pl.logger.LogSink.dataReceived, pl.message.send/receive, security.TwistedWrapper.process.
Payload decoding (pickle) is replaced by the identity so that arbitrary byte payloads can be
used; what is compared is the sequence of payloads handed to the message handler."""
import itertools
import struct
import types

from . import common

LEAN_TARGETS = ['DawgieVerif.Model.FrameIO']

MANIFEST = dict(
    text='Lean theorems over an executable model of the frame-reassembly loop shared by the farm, '
         'database and log channels (feed_append, any_chunking, frames_roundtrip, chunked_frames, '
         'recv1_agrees: every byte stream, every chunking, every message list, by functional induction, '
         'no size bound) and of security.TwistedWrapper (hs_gate, hs_authenticated, '
         'hs_no_echo_no_delivery, hs_fail_closed, hs_tail_in_order, hs_no_struct_error: invariants over '
         'every chunk list and every verify/decrypt behaviour; hs_any_chunking: any cutting of the stream, '
         'handshake included, gives the same deliveries, closure, completion and residual state as delivery '
         'in one piece, for every oracle that rejects the empty message). The models are tied to the three real '
         'dataReceived loops, message.send/receive and TwistedWrapper.process by a correspondence run on '
         'every check; the prefix width is regenerated from the struct formats in the source.',
    note='Trusted: Lean kernel; axioms propext/Classical.choice/Quot.sound only; tools/gen_c14.py; '
         'harness fakes (transport, identity pickle shim, table-driven PGP fake, fixed challenge text). '
         'Assumed: Twisted delivers nothing after loseConnection. str.strip() of the echo is not modelled (the harness sends echoes without surrounding white '
         'space); hs_any_chunking assumes verify rejects the empty message. Real sockets and kernel chunking are not exercised (the theorem proves '
         'independence from chunking).',
    technique='Lean 4 proof by functional induction on the frame loop and invariants of the handshake + differential correspondence',
    design='7/C14',
)

TRUSTED = [
    'pickle.loads/dumps replaced by identity shims in the three channel modules (payload decoding is a parameter of the model)',
    'Twisted delivers no dataReceived after loseConnection (abstract.FileDescriptor.loseConnection stops reading)',
    'security._PGP replaced by a table-driven fake: verify/decrypt are parameters of the handshake model',
]


class FakeTransport:
    def __init__(self):
        self.written = []
        self.closed = 0

    def write(self, b):
        self.written.append(bytes(b))

    def loseConnection(self):
        self.closed += 1


class Channels:
    """Factories for the three real protocol objects with recording handlers."""

    def __init__(self):
        import dawgie.db.shelve.comms as comms
        import dawgie.pl.farm as farm
        import dawgie.pl.logger as logger
        import dawgie.pl.message as message
        import dawgie.security as security

        self.comms, self.farm, self.logger, self.message, self.security = (
            comms, farm, logger, message, security,
        )
        security._myself = None  # legacy (non-TLS) mode so the wrapper is installed when addressed
        message.loads = lambda b: bytes(b)
        message.dumps = lambda m: bytes(m)
        func = comms.Func
        # `get` requests make the db worker close after each request (one request per
        # connection); `acquire` requests keep it open: used for multi-message streams
        self.req_func = holder = {'func': func.get, 'get': func.get, 'acquire': func.acquire}

        class Req:
            def __init__(self, b):
                self.func = holder['func']
                self.payload = bytes(b)

        comms.pickle = types.SimpleNamespace(
            loads=Req, dumps=lambda o, p=None: bytes(o), HIGHEST_PROTOCOL=5
        )
        logger.pickle = types.SimpleNamespace(loads=lambda b: {'msg': bytes(b)})
        logger.logging = types.SimpleNamespace(
            makeLogRecord=lambda d: d['msg'],
            ERROR=40, DEBUG=10, getLogger=logger.logging.getLogger,
            Filter=logger.logging.Filter, Handler=logger.logging.Handler,
        )

    def hand(self, address=None):
        got = []
        h = self.farm.Hand(address)
        h.transport = FakeTransport()
        h._process = got.append
        return h, got

    def dbworker(self, address=None):
        got = []
        w = self.comms.Worker(address)
        w.transport = FakeTransport()
        w.do = lambda req: got.append(req.payload)
        return w, got

    def logsink(self, address=None):
        got = []
        actual = types.SimpleNamespace(handle=got.append, flush=lambda: None)
        s = self.logger.LogSink(actual, address)
        s.transport = FakeTransport()
        return s, got

    def all(self, address=None):
        return [('farm', self.hand(address)), ('db', self.dbworker(address)),
                ('log', self.logsink(address))]


def frame(m):
    return struct.pack('>I', len(m)) + m


def gen_messages(r):
    n = r.choice([0, 1, 1, 2, 2, 3, 4, 6])
    out = []
    for _ in range(n):
        k = r.choice([0, 1, 2, 3, 5, 8, 13, 40, 255, 256, 257, 300])
        out.append(bytes(r.randrange(256) for _ in range(k)))
    return out


def gen_malformed(r):
    """byte soup whose would-be length prefixes stay small, so the loop keeps making progress"""
    out = bytearray()
    for _ in range(r.randrange(1, 6)):
        out += bytes([0, 0, 0, r.choice([0, 1, 2, 3, 4, 5, 9])])
        out += bytes(r.randrange(256) for _ in range(r.randrange(0, 7)))
    return bytes(out[: r.randrange(1, len(out) + 1)])


def random_chunking(r, stream):
    cuts = sorted(r.sample(range(len(stream) + 1), min(len(stream) + 1, r.choice([0, 1, 2, 3, 5, 9]))))
    chunks, last = [], 0
    for c in cuts:
        chunks.append(stream[last:c])
        last = c
    chunks.append(stream[last:])
    if r.random() < 0.2:
        chunks.insert(r.randrange(len(chunks) + 1), b'')
    return chunks


def all_chunkings(stream):
    n = len(stream)
    for mask in range(1 << max(n - 1, 0)):
        chunks, last = [], 0
        for i in range(1, n):
            if mask >> (i - 1) & 1:
                chunks.append(stream[last:i])
                last = i
        chunks.append(stream[last:])
        yield chunks


def deliver(ch, kind, chunks):
    proto, got = {'farm': ch.hand, 'db': ch.dbworker, 'log': ch.logsink}[kind]()
    for c in chunks:
        try:
            proto.dataReceived(c)
        except Exception as e:  # pylint: disable=broad-except
            got.append(('EXC:' + type(e).__name__).encode())  # the connection would be dropped here
            break
    return list(got)


def run_frame_case(ch, res, chunks, expect, tag, lines, pending):
    stream = b''.join(chunks)
    outs = {}
    for kind in ('farm', 'db', 'log'):
        got = deliver(ch, kind, chunks)
        whole = deliver(ch, kind, [stream])
        outs[kind] = got
        # monitor: the property itself on the implementation
        if got != whole:
            res.hit(f'C14:chunking:{kind}', f'{kind} channel: chunked delivery differs from whole delivery',
                    {'kind': 'frame', 'channel': kind, 'chunks': [list(c) for c in chunks],
                     'chunked': [list(m) for m in got], 'whole': [list(m) for m in whole]})
        if expect is not None and got != expect:
            res.hit(f'C14:roundtrip:{kind}', f'{kind} channel: framed messages not delivered intact',
                    {'kind': 'frame', 'channel': kind, 'chunks': [list(c) for c in chunks],
                     'got': [list(m) for m in got], 'sent': [list(m) for m in expect]})
    lines.append(common.sx(['frame', 'feedall'] + [bytes(c) for c in chunks]))
    pending.append((tag, chunks, outs))
    res.case((tag, tuple(chunks)), nontrivial=len(chunks) > 1 and len(stream) > 4,
             sample={'chunks': [c.hex() for c in chunks], 'messages': [m.hex() for m in outs['farm']]})
    res.count('frame:' + tag)
    res.count('chunks:%d' % min(len(chunks), 6))


def run(ctx, res):
    import logging

    logging.disable(logging.CRITICAL)
    ch = Channels()
    r = common.rng(ctx['seed'], 'C14')
    thorough = ctx['tier'] == 'thorough' or ctx['escalate']
    res.rule = ('framed message sequences and malformed byte soups, cut at random positions '
                '(thorough: every set of split positions of every stream up to 11 bytes); '
                'each case is fed to the three real dataReceived loops and to the Lean model; '
                'non-trivial = more than one chunk and more than one prefix of bytes; distinct by chunk list')
    res.assumptions = list(TRUSTED)
    lines, pending = [], []
    # corpus first: shapes that historically break reassembly loops
    corpus = [
        [b'\0\0\0', b'\2\7\10\0\0', b'\0\1', b'\11'],
        [b'\0\0\0\0\0\0\0\0'],  # two empty payloads
        [b'\0', b'\0', b'\0', b'\1', b'\x55'],
        [frame(b'ab') + frame(b'')[:2], frame(b'')[2:] + frame(b'c')],
    ]
    for c in corpus:
        run_frame_case(ch, res, c, None, 'corpus', lines, pending)
    n = 1500 if thorough else 250
    for _ in range(n):
        if r.random() < 0.75:
            ms = gen_messages(r)
            stream = b''.join(frame(m) for m in ms)
            run_frame_case(ch, res, random_chunking(r, stream), ms, 'framed', lines, pending)
        else:
            run_frame_case(ch, res, random_chunking(r, gen_malformed(r)), None, 'malformed', lines, pending)
    if thorough:
        short = [b''.join(frame(m) for m in ms) for ms in
                 ([b'a'], [b'', b'b'], [b'ab', b'c'], [b'abc'], [b'', b'', b''])]
        short.append(bytes([0, 0, 0, 1, 7, 0, 0, 0, 3, 1, 2]))
        for s in short:
            s = s[:11]
            for chunks in all_chunkings(s):
                run_frame_case(ch, res, chunks, None, 'allsplits', lines, pending)
        res.exhaustive = False
    # send side and blocking receive
    for _ in range(40):
        m = bytes(r.randrange(256) for _ in range(r.choice([0, 1, 5, 255, 256, 70000])))
        sent = []
        ch.message.send(m, types.SimpleNamespace(sendall=sent.append))
        if b''.join(sent) != frame(m):
            res.hit('C14:send', 'message.send does not emit prefix+payload',
                    {'kind': 'send', 'payload_len': len(m)})
        stream = bytearray(frame(m) + b'tail')
        sizes = []

        def recv(k, stream=stream, r=r, sizes=sizes):
            k = r.randrange(1, k + 1) if k > 1 else k
            out = bytes(stream[:k])
            del stream[:k]
            sizes.append(len(out))
            return out

        try:
            back = ch.message.receive(types.SimpleNamespace(recv=recv))
        except Exception as e:  # pylint: disable=broad-except
            back = ('raised', type(e).__name__)
        if back != m or bytes(stream) != b'tail':
            res.hit('C14:receive',
                    f'message.receive does not return the framed payload of {len(m)} bytes delivered in pieces of '
                    f'{sizes[:12]}: got {back if isinstance(back, tuple) else "other bytes"}, '
                    f'{len(stream)} bytes left in the socket (expected 4)',
                    {'kind': 'receive', 'payload_len': len(m), 'pieces': sizes[:64]})
        res.count('send/receive')
    if len(m) < 300:
        pass
    # handshake
    from . import c14_handshake
    c14_handshake.run(ctx, res, ch, r, lines, pending)
    # correspondence with the Lean model
    if ctx['lean']:
        outs = common.driver(lines, 'C14')
        for (tag, chunks, impl), o in zip(pending, outs):
            if tag == 'hs':
                c14_handshake.compare(res, chunks, impl, o)
                continue
            model = common.parse_sx(o)
            mm = [bytes(int(b) for b in m) for m in model[1]]
            for kind, got in impl.items():
                if got != mm:
                    res.diff(f'Frame.feedAll vs {kind} dataReceived',
                             {'chunks': [list(c) for c in chunks]},
                             [list(m) for m in mm], [list(m) for m in got])
        res.traces = len(pending)


def replay(rep, res):
    import logging

    logging.disable(logging.CRITICAL)
    ch = Channels()
    inp = rep['input']
    if inp['kind'] == 'frame':
        chunks = [bytes(c) for c in inp['chunks']]
        run_frame_case(ch, res, chunks, [bytes(m) for m in inp['sent']] if 'sent' in inp else None,
                       'replay', [], [])
    elif inp['kind'] == 'hs':
        from . import c14_handshake
        c14_handshake.replay(inp, res, ch)
