"""Drives the REAL scheduler (pl/schedule.py), farm (pl/farm.py) and task graph (pl/dag.py)
in-process on synthetic algorithm engines, for C01–C05 and C11.

An engine descriptor is a list of algorithm dicts
    {'task': 't0', 'name': 'a0', 'kind': 'task'|'analysis'|'regress', 'values': ['v0', ...],
     'inputs': [(src_index, value_name | None)], 'feedback': [(src_index, value_name)]}
(`None` = reference at algorithm level; inputs refer to earlier algorithms only, so the
declared dependencies are acyclic).  It is written to disk as a real package and loaded with
the real `pl.scan.for_factories`; `dag.Construct` builds the real graph (only the `dot`
rendering is skipped).  Fakes: `dawgie.db.targets/next`, `dawgie.context.fsm`,
`chronicle.append` (recorded), `dawgie.context.dumps`, worker transports."""
import importlib
import os
import pickle
import shutil
import struct
import sys
import tempfile
import types

ALL = '__all__'

TASK_SRC = '''
import dawgie

class V(dawgie.Value):
    def __init__(self, x=None):
        dawgie.Value.__init__(self)
        self.x = x
        self._version_ = dawgie.VERSION(1, 0, 0)
    def features(self):
        return []

class SV(dawgie.StateVector):
    def __init__(self, names):
        dawgie.StateVector.__init__(self)
        self._version_ = dawgie.VERSION(1, 0, 0)
        for n in names:
            self[n] = V()
    def name(self):
        return 'sv'
    def view(self, caller, visitor):
        return

def _refs(specs):
    import importlib
    out = []
    for (mod, fac, cls, val) in specs:
        m = importlib.import_module(mod)
        impl = getattr(m, cls)()
        f = getattr(m, fac)
        if val is None:
            out.append(dawgie.ALG_REF(factory=f, impl=impl))
        else:
            sv = impl.state_vectors()[0]
            out.append(dawgie.V_REF(factory=f, impl=impl, item=sv, feat=val))
    return out
'''

ALG_SRC = '''
class {cls}(dawgie.{base}):
    def __init__(self):
        dawgie.{base}.__init__(self)
        self._version_ = dawgie.VERSION(1, 0, 0)
        self._sv = SV({values!r})
    def name(self):
        return {name!r}
    def {prior}(self):
        return _refs({inputs!r})
    def feedback(self):
        return _refs({feedback!r})
    def run(self, *args, **kwds):
        return
    def state_vectors(self):
        return [self._sv]
    def where(self):
        return dawgie.Distribution.{where}
'''

BOT_SRC = '''
class {cls}(dawgie.{base}):
    def list(self):
        return [{algs}]

def {fac}(prefix, ps_hint=0{extra}):
    return {cls}(prefix, ps_hint{extra_pass})
'''

BASES = {
    'task': ('Algorithm', 'previous', 'Task', ", runid=-1, target='__none__'", ', runid, target'),
    'analysis': ('Analyzer', 'traits', 'Analysis', ', runid=-1', ', runid'),
    'regress': ('Regression', 'variables', 'Regress', ", target='__none__'", ', target'),
}

_COUNTER = [0]


def cls_name(a):
    return 'A_' + a['name']


def write_engine(root, pkg, algs):
    os.makedirs(os.path.join(root, pkg))
    open(os.path.join(root, pkg, '__init__.py'), 'w').close()
    tasks = {}
    for a in algs:
        tasks.setdefault(a['task'], []).append(a)
    for t, members in tasks.items():
        os.makedirs(os.path.join(root, pkg, t))
        src = [TASK_SRC]
        for a in members:
            base, prior, _bot, _e, _p = BASES[a['kind']]

            def spec(pairs):
                out = []
                for (j, val) in pairs:
                    b = algs[j]
                    out.append((f"{pkg}.{b['task']}", b['kind'], cls_name(b), val))
                return out

            src.append(ALG_SRC.format(
                cls=cls_name(a), base=base, name=a['name'], prior=prior, values=a['values'],
                inputs=spec(a['inputs']), feedback=spec(a.get('feedback', [])), where=a.get('where', 'cluster')))
        for kind in ('task', 'analysis', 'regress'):
            ms = [a for a in members if a['kind'] == kind]
            if ms:
                _b, _p, bot, extra, extra_pass = BASES[kind]
                src.append(BOT_SRC.format(cls='Bot_' + kind, base=bot, fac=kind,
                                          algs=', '.join(cls_name(a) + '()' for a in ms),
                                          extra=extra, extra_pass=extra_pass))
        with open(os.path.join(root, pkg, t, '__init__.py'), 'w') as f:
            f.write('\n'.join(src))


class FakeFSM:
    def __init__(self):
        self.active = True
        self.crew_wait = False
        self.archives = 0
        self.archive_stops = False   # C11: follow the real machine (archiving => not active)
        self.on_archive = None       # C11: called at the moment the trigger fires (inside a tick)

    def is_pipeline_active(self):
        return self.active

    def waiting_on_crew(self):
        return self.crew_wait

    def archiving_trigger(self):
        # the real machine moves to `archiving`: the pipeline is no longer active
        self.archives += 1
        if self.on_archive is not None:
            self.on_archive()
        if self.archive_stops:
            self.active = False


class FakeTransport:
    def __init__(self):
        self.written = []
        self.closed = 0

    def write(self, b):
        self.written.append(bytes(b))

    def loseConnection(self):
        self.closed += 1


def unframe(chunks):
    buf = b''.join(chunks)
    out = []
    while len(buf) >= 4:
        n = struct.unpack('>I', buf[:4])[0]
        out.append(pickle.loads(buf[4:4 + n]))
        buf = buf[4 + n:]
    return out


class Env:
    """One engine loaded through the real scanner; `fresh()` gives a new real graph and
    clean scheduler/farm state for every history."""

    def __init__(self, algs, targets):
        import dawgie
        import dawgie.context
        import dawgie.db
        import dawgie.pl.dag
        import dawgie.pl.farm
        import dawgie.pl.logger.chronicle
        import dawgie.pl.message
        import dawgie.pl.scan
        import dawgie.pl.schedule
        import dawgie.security

        self.dawgie = dawgie
        self.S = dawgie.pl.schedule
        self.F = dawgie.pl.farm
        self.M = dawgie.pl.message
        self.algs = algs
        self.targets = list(targets)
        _COUNTER[0] += 1
        self.pkg = f'vae{os.getpid()}_{_COUNTER[0]}'
        self.root = tempfile.mkdtemp(prefix='verif_sched_')
        write_engine(self.root, self.pkg, algs)
        sys.path.insert(0, self.root)
        importlib.invalidate_caches()
        dawgie.context.ae_base_package = self.pkg
        dawgie.context.ae_base_path = os.path.join(self.root, self.pkg)
        dawgie.context.git_rev = 'rev0'
        dawgie.context.allow_promotion = False
        dawgie.context.dumps = lambda: b''
        dawgie.security._myself = {'x': 1}  # TLS mode: no legacy handshake wrapper on Hand
        if hasattr(dawgie.pl.scan, 'reset'):
            dawgie.pl.scan.reset(self.pkg)
        self.factories = dawgie.pl.scan.for_factories(dawgie.context.ae_base_path, self.pkg)
        # skip the four `dot` renderings but keep the walk that assigns `level`
        self._orig_graph = dawgie.pl.dag.Construct.graph
        dawgie.pl.dag.Construct.graph = staticmethod(_fast_graph)
        self.tags = [f"{a['task']}.{a['name']}" for a in algs]
        self.vals = []  # global value ids: 'task.alg.sv.val'
        for a in algs:
            for v in a['values']:
                self.vals.append(f"{a['task']}.{a['name']}.sv.{v}")
        self.chron = []
        self.fsm = FakeFSM()
        self.next_run = [1]
        self.released_log = []

    def close(self):
        self.dawgie.pl.dag.Construct.graph = self._orig_graph
        if self.root in sys.path:
            sys.path.remove(self.root)
        for k in [k for k in sys.modules if k == self.pkg or k.startswith(self.pkg + '.')]:
            del sys.modules[k]
        shutil.rmtree(self.root, ignore_errors=True)

    # ------------------------------------------------------------------ set-up per history
    def fresh(self):
        d, S, F = self.dawgie, self.S, self.F
        self.db_targets = list(self.targets)
        d.db.targets = lambda: list(self.db_targets)
        self.next_run = [1]

        self.fail_next_db = False

        def nxt():
            if self.fail_next_db:
                self.fail_next_db = False
                raise RuntimeError('injected database fault in db.next()')
            v = self.next_run[0]
            self.next_run[0] += 1
            return v

        d.db.next = nxt
        self.fsm = FakeFSM()
        d.context.fsm = self.fsm
        self.chron = []
        d.pl.logger.chronicle.append = lambda e: self.chron.append(dict(e))
        S.ae = d.pl.dag.Construct(self.factories)
        S.promote.ae = S.ae
        S.promote.organize = S.organize
        S.promote.clear()
        S.que = []
        S.per = []
        S.err.clear()
        S.suc.clear()
        S.booted.clear()
        S.pipeline_paused = False
        F.clear()
        F._reject.clear()
        F._repeat.clear()
        F._agency[0] = None
        F.ARCHIVE = False
        F.insights = {}
        self.nodes = {}
        for r in S.ae.at:
            for n in r.iter():
                self.nodes[n.tag] = n
        self.released_log = []
        orig = S.next_job_batch.__wrapped__ if hasattr(S.next_job_batch, '__wrapped__') else S.next_job_batch

        def recording_batch():
            # released = what this call moved todo -> doing (after a database fault `do` still holds
            # targets released by an earlier call)
            before = {tag: set(n.get('doing')) for tag, n in self.nodes.items()}
            jobs = orig()
            self.released_log.append([(j.tag, sorted(set(j.get('doing')) - before[j.tag])) for j in jobs])
            return jobs

        recording_batch.__wrapped__ = orig
        S.next_job_batch = recording_batch
        return self

    # ------------------------------------------------------------------ graph for the model
    def graph(self):
        S, d = self.S, self.dawgie
        idx = {t: i for i, t in enumerate(self.tags)}
        vidx = {v: i for i, v in enumerate(self.vals)}
        kinds, children, desc, ancestry, consumes = [], [], [], [], []
        self.self_children = []
        for t in self.tags:
            n = self.nodes[t]
            kinds.append(n.get('factory').__name__)
            ch = [c.tag for c in n]
            if t in ch:
                self.self_children.append(t)
            children.append(sorted({idx[c] for c in ch if c != t}))
            seen, stack = [], [n]
            while stack:
                m = stack.pop()
                if m.tag in seen:
                    continue
                seen.append(m.tag)
                stack.extend(list(m))
            desc.append(sorted(idx[x] for x in seen))
            ancestry.append(sorted(idx[a] for a in n.get('ancestry')))
            cons = set()
            for vref in d.util.as_vref(S._priors(n.get('alg'))):
                cons.add(vidx[d.util.vref_as_name(vref)])
            consumes.append(sorted(cons))
        fb = []
        for fvn, consumer in S.ae.feedbacks.items():
            fb.append([vidx[fvn], idx['.'.join(consumer.split('.')[:2])]])
        levels = [self.nodes[t].get('level') or 0 for t in self.tags]
        order = sorted(self.tags)   # `sorted(task_names)` in schedule.update
        ranks = [order.index(t) for t in self.tags]
        return [kinds, children, desc, ancestry, consumes, sorted(fb), levels, ranks]

    # ------------------------------------------------------------------ observation
    def snapshot(self):
        S = self.S
        st = {}
        for t in self.tags:
            n = self.nodes[t]
            st[t] = {
                'todo': list(n.get('todo')), 'doing': sorted(n.get('doing')),
                'do': sorted(n.get('do')), 'status': n.get('status').name,
                'runid': n.get('runid'),
            }
        return {'que': [j.tag for j in S.que], 'nodes': st}

    # ------------------------------------------------------------------ operations (real code)
    def organize(self, tags, rid, targets):
        self.S.organize(list(tags), rid, list(targets) if targets else None, 'verif request')

    def dispatch(self):
        """real farm.dispatch(); returns the units moved todo -> doing by next_job_batch"""
        n0 = len(self.released_log)
        self.F.dispatch()
        out = []
        for batch in self.released_log[n0:]:
            for tag, do in batch:
                out.extend((tag, t) for t in do)
        return out

    def reply(self, tag, target, outcome, rid, values):
        """values: [(value_name 'task.alg.sv.val', isnew)] of the replying algorithm"""
        suc = {'success': True, 'failure': False, 'invalid': None}[outcome]
        msg = self.M.make(
            typ=self.M.Type.response, inc=None if target == ALL else target, jid=tag, rid=rid,
            suc=suc, tim={'started': 'now'},
            val=[(f'{rid}.{target}.{vn}', isnew) for vn, isnew in values],
        )
        n_chron = len(self.chron)
        self.F.Hand._res(msg)
        return len(self.chron) - n_chron

    def defer(self, per):
        """per: [(tag, due_count)] — installs events whose delay is controlled by the harness"""
        S = self.S
        S.per = []
        events = {}
        for tag, due in per:
            n = self.nodes[tag]
            evs = []
            for _ in range(max(due, 1)):
                e = types.SimpleNamespace(due=due > 0)
                evs.append(e)
                events[id(e)] = e
            n.set('period', evs)
            S.per.append(n)
        orig = S._delay
        import datetime
        S._delay = lambda e: datetime.timedelta(seconds=0 if e.due else 86400)
        calls = []
        real = S.twisted.internet.reactor.callLater
        S.twisted.internet.reactor.callLater = lambda *a, **k: calls.append(a[0])
        try:
            S.defer()
        finally:
            S._delay = orig
            S.twisted.internet.reactor.callLater = real
        return calls

    # ------------------------------------------------------------------ workers (C11)
    def new_worker(self, host='10.0.0.1'):
        h = self.F.Hand(types.SimpleNamespace(host=host, port=1))
        h.transport = FakeTransport()
        return h

    def send_to_hand(self, hand, msg):
        data = pickle.dumps(msg, pickle.HIGHEST_PROTOCOL)
        hand.dataReceived(struct.pack('>I', len(data)) + data)


def _fast_graph(_dot, roots, _name):  # signature of dag.Construct.graph(dot, roots, name)
    for r in roots:
        _level_walk(r, 0)
    return b''


def _level_walk(node, level):
    """the level assignment of dag.Node.graph without building the dot graph"""
    if not node.get('been_here', False):
        node.set('been_here', True)
        cl = node.get('level')
        node.set('level', max(level, 0 if cl is None else cl))
        for c in node:
            _level_walk(c, level + 1)
