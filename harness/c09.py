"""C09 — the derived task graph is faithful to the declared dependencies.

Real code driven: pl.scan.for_factories on algorithm-engine packages written to disk from an
abstract descriptor, then dag.Construct(factories) (only `Construct.graph` is replaced: it keeps
the `root.graph()` walk and skips the `dot` subprocess).  Observed: at / svt / tt / vt node
tags, children, ancestry, parents, feedback and Construct.feedbacks.

Monitor  = the property computed from the DESCRIPTOR alone (expected nodes and edges at every
           granularity, breadth-first transitive closure, consumers of fed-back values).
Correspondence = the same descriptor (algorithms in the order the real factories produce them)
           through lean/Driver/C09.lean (Model/Dag.lean), compared as canonical sets."""
import json
import multiprocessing
import shutil
import signal
import tempfile

from . import common
from . import c09_engine as E

LEAN_TARGETS = ['DawgieVerif.Model.DagIO']

MANIFEST = dict(
    text='Lean theorems over an executable model of dag.Construct (Model/Dag.lean: as_vref expansion, '
         'value-level node table and edge insertion, roots, the _parents walk, the round-based _ancestry '
         'loop, Node.trim to task/algorithm/state-vector level, _feedback), for every well-formed acyclic '
         'engine with no size bound: at_nodes (exactly one algorithm node per algorithm), edge_iff at '
         'task, algorithm and state-vector level and edge_iff_value (an edge exactly where the child\'s '
         'algorithm declares a value of the parent as input after expansion), ancestry_closure and '
         'ancestry_closure_value (ancestry = transitive closure of those edges; termination of the '
         '_ancestry loop is derived from acyclicity), feedback_no_edge, feedbacks_total/feedbacks_sound, '
         'construct_ok and construct_error_branches (KeyError only for a fed-back name that is no node), and the '
         'exported anc_closed (AncClosed) used by the scheduler properties. The model '
         'is tied to the real scanner and the real dag.Construct by a correspondence run on engines '
         'written to disk as real Python packages, and an independent monitor states the property on '
         'the real graphs.',
    note='Trusted: Lean kernel; axioms propext/Classical.choice/Quot.sound only; the harness (package '
         'writer, tree walker, canonicalisation by sorting) and the driver parser. Hypotheses of the '
         'theorems (all guaranteed by the compliance gate, rules 4/5/9/11): unique (task, algorithm) '
         'names, every algorithm has a state vector and every state vector a value, every reference '
         'resolves to a declared entity; references are resolved by name (the instance carried inside a '
         'dawgie *_REF is assumed to be an instance of the registered class); names contain no dot; '
         'acyclicity is meant at algorithm level and excludes an algorithm reading its own output. '
         'On cyclic input the Python _ancestry loop does not terminate; the model reports this as an '
         'explicit error (Err.diverges) and it is not executed against the code. Construct.feedbacks is '
         'compared as value -> consumer algorithm (any declared consumer when there are several; the model '
         'receives the algorithms in the factory order observed on the real scanner). Node attributes used by the scheduler (level, do/doing/todo, status) and the SVG '
         'rendering are not covered here. The loops of _build_tree and _feedback are modelled as folds over their '
         'flattened iteration space, _parents and Node.trim as one visited-set depth-first walk plus '
         'point-wise set comprehension (the Python may revisit a node; revisits are idempotent).',
    technique='Lean 4 proof (fold invariants, DFS closure, rank argument for the closure loop) + '
              'differential correspondence on generated packages',
    design='7/C09',
)

TRUSTED = [
    'engine packages are generated from the descriptor by harness/c09_engine.py (classes, factories and dawgie *_REF objects built the way algorithm engines build them)',
    'Construct.graph replaced by a version that walks root.graph() but does not run dot',
    'references resolve by name: the instance inside an ALG_REF/SV_REF/V_REF is an instance of the registered class',
]

LEVELS = (('tt', 1), ('at', 2), ('svt', 3), ('vt', 4))
CASE_TIMEOUT = 6   # seconds of CPU per engine (a normal case needs about 0.03 s)
MAX_HANGS = 3      # stop generating once this many engines did not finish


# ---------------------------------------------------------------- descriptor helpers
def alg_id(a):
    return '%s.%s' % (a['task'], a['name'])


def values_of(a):
    return ['%s.%s.%s.%s' % (a['task'], a['name'], s, v) for s, vs in a['svs'] for v in vs]


def expand(eng, refs):
    """independent re-statement of as_vref + vref_as_name over the descriptor"""
    out = []
    for r in refs:
        tgt = [a for a in eng['algs'] if a['task'] == r[1] and a['name'] == r[2]]
        if r[0] == 'V':
            out.append('.'.join(r[1:5]))
        elif tgt:
            for s, vs in tgt[0]['svs']:
                if r[0] == 'A' or s == r[3]:
                    out.extend('%s.%s.%s.%s' % (r[1], r[2], s, v) for v in vs)
    return out


def trim(tag, n):
    return '.'.join(tag.split('.')[:n])


def well_formed(eng):
    ids = [alg_id(a) for a in eng['algs']]
    if len(set(ids)) != len(ids):
        return False
    decl = {v for a in eng['algs'] for v in values_of(a)}
    for a in eng['algs']:
        if not a['svs'] or any(not vs for _s, vs in a['svs']):
            return False
        if len({s for s, _ in a['svs']}) != len(a['svs']):
            return False
        for r in a['inputs'] + a['feedback']:
            ex = expand(eng, [r])
            if not ex or any(x not in decl for x in ex):
                return False
    return True


def alg_edges(eng):
    edges = set()
    for b in eng['algs']:
        for a in expand(eng, b['inputs']):
            edges.add((trim(a, 2), alg_id(b)))
    return edges


def acyclic(eng):
    edges = alg_edges(eng)
    nodes = {alg_id(a) for a in eng['algs']}
    indeg = {n: 0 for n in nodes}
    for p, c in edges:
        if p == c:
            return False
        indeg[c] = indeg.get(c, 0) + 1
    todo = [n for n in nodes if indeg[n] == 0]
    seen = 0
    while todo:
        n = todo.pop()
        seen += 1
        for p, c in edges:
            if p == n:
                indeg[c] -= 1
                if indeg[c] == 0:
                    todo.append(c)
    return seen == len(nodes)


def closure(nodes, edges):
    """ancestors of every node by breadth-first search over reversed edges"""
    rev = {n: set() for n in nodes}
    for p, c in edges:
        rev.setdefault(c, set()).add(p)
    out = {}
    for n in nodes:
        seen, frontier = set(), [n]
        while frontier:
            nxt = []
            for x in frontier:
                for p in rev.get(x, ()):
                    if p not in seen:
                        seen.add(p)
                        nxt.append(p)
            frontier = nxt
        out[n] = seen
    return out


def expected(eng):
    """what the property demands, from the descriptor alone"""
    vedges = set()
    for b in eng['algs']:
        ins = expand(eng, b['inputs'])
        for fn in values_of(b):
            for a in ins:
                vedges.add((a, fn))
    vnodes = {v for a in eng['algs'] for v in values_of(a)}
    exp = {}
    for name, lvl in LEVELS:
        nodes = {trim(v, lvl) for v in vnodes}
        kids = {n: set() for n in nodes}
        for a, b in vedges:
            kids[trim(a, lvl)].add(trim(b, lvl))
        exp[name] = {'nodes': nodes, 'children': kids}
    exp['at']['ancestry'] = closure(exp['at']['nodes'], {(trim(a, 2), trim(b, 2)) for a, b in vedges})
    exp['vt']['ancestry'] = closure(vnodes, vedges)
    fb = {}
    for c in eng['algs']:
        for v in expand(eng, c['feedback']):
            fb.setdefault(v, set()).add(alg_id(c))
    exp['fed_back'] = fb
    exp['fb_pairs'] = {lvl: {(trim(v, lvl), trim(cv, lvl)) for c in eng['algs'] for v in expand(eng, c['feedback'])
                             for cv in values_of(c)} for _n, lvl in LEVELS}
    return exp


# ---------------------------------------------------------------- monitor
def monitor(eng, obs, err, res):
    """the property on the real graph; only for well-formed acyclic engines"""
    rep = {'engine': eng}
    if err is not None:
        res.hit('C09:construct-' + err, 'Construct(factories) failed (%s) on a well-formed acyclic engine' % err, rep)
        return
    exp = expected(eng)
    ids = sorted(alg_id(a) for a in eng['algs'])
    at = obs['at']
    if at['tags_by_children'] != ids or at['objects_per_tag'] != 1:
        res.hit('C09:at-nodes', 'algorithm tree does not have exactly one node per algorithm: nodes %s, algorithms %s'
                % (at['tags_by_children'], ids), rep)
    elif any(at['alg'][t] != t.split('.')[1] for t in at['tags']):
        res.hit('C09:at-nodes-alg', 'an algorithm node carries another algorithm instance', rep)
    for name, lvl in LEVELS:
        if name == 'tt':
            continue  # task granularity is not in the property text: correspondence only
        tree = obs[name]
        if sorted(tree['tags_by_children']) != sorted(exp[name]['nodes']):
            if name != 'at':
                res.hit('C09:nodes:' + name, '%s: node tags %s, expected %s'
                        % (name, tree['tags_by_children'], sorted(exp[name]['nodes'])), rep)
            continue
        if tree['objects_per_tag'] != 1:
            res.hit('C09:duplicate:' + name, '%s: a tag is carried by two distinct nodes' % name, rep)
        for p in sorted(exp[name]['nodes']):
            got, want = set(tree['children'].get(p, ())), exp[name]['children'][p]
            for c in sorted(want - got):
                res.hit('C09:edge-missing:' + name, '%s: declared dependency %s -> %s has no edge' % (name, p, c), rep)
            for c in sorted(got - want):
                if (c, p) in exp['fb_pairs'][lvl] or (p, c) in exp['fb_pairs'][lvl]:
                    res.hit('C09:feedback-edge:' + name,
                            '%s: feedback reference created the ordering edge %s -> %s' % (name, p, c), rep)
                else:
                    res.hit('C09:edge-extra:' + name, '%s: edge %s -> %s without a declared input' % (name, p, c), rep)
        if 'ancestry' in exp[name]:
            for p in sorted(exp[name]['nodes']):
                got, want = set(tree['ancestry'].get(p, ())), exp[name]['ancestry'][p]
                if got != want:
                    fbrel = any((a, p) in exp['fb_pairs'][lvl] or (p, a) in exp['fb_pairs'][lvl] for a in got - want)
                    res.hit('C09:ancestry:' + name + (':feedback' if fbrel and not want - got else ''),
                            '%s: ancestry of %s is %s, transitive closure of the declared inputs is %s'
                            % (name, p, sorted(got), sorted(want)), rep)
    for v, consumers in sorted(exp['fed_back'].items()):
        got = obs['feedbacks'].get(v)
        if got is None:
            res.hit('C09:feedbacks-missing', 'fed-back value %s is not mapped to a consumer' % v, rep)
        elif trim(got, 2) not in consumers:
            res.hit('C09:feedbacks-consumer', 'fed-back value %s is mapped to %s which does not consume it' % (v, got), rep)
    for v in sorted(set(obs['feedbacks']) - set(exp['fed_back'])):
        res.hit('C09:feedbacks-spurious', '%s is listed as fed back but no algorithm declares it' % v, rep)


# ---------------------------------------------------------------- generators
# base packages: short, made of common letters (the default of dawgie.context is 'ae')
BASES = ['ae', 'ea', 'nae', 'sat', 'ab']


def task_pool(base):
    """task-package names, many of which start with characters of the base package name, and
    pairs that differ only by such a prefix (mission / emission for base 'ae')"""
    f, l = base[0], base[-1]
    pool = ['mission', l + 'mission', f + 'mission', 'extract', 'analyze', 'pb', f + 'pb', l + f + 'pb',
            'p', base[::-1] + 'p', 'network', 'noio', 'stage', base + 'x']
    out = []
    for t in pool:
        if t != base and t not in out:
            out.append(t)
    return out


ALGN = ['a', 'a1', 'a10', 'b', 'b1', 'ab', 'c', 'c2', 'd', 'a2']
SVN = ['s', 's1', 'st', 't']
VN = ['v', 'v1', 'w', 'x']


def gen_ref(r, tgt, level=None):
    level = level or r.choice('ASV')
    if level == 'A':
        return ['A', tgt['task'], tgt['name']]
    s, vs = r.choice(tgt['svs'])
    if level == 'S':
        return ['S', tgt['task'], tgt['name'], s]
    return ['V', tgt['task'], tgt['name'], s, r.choice(vs)]


def gen_alg(r, used, tasks, kind=None):
    while True:
        t, n = r.choice(tasks), r.choice(ALGN)
        if (t, n) not in used:
            used.add((t, n))
            break
    svs = [[s, r.sample(VN, r.choice([1, 1, 2, 3]))] for s in r.sample(SVN, r.choice([1, 1, 2, 3]))]
    return {'task': t, 'kind': kind or r.choice(['task', 'task', 'task', 'analysis', 'regress']),
            'name': n, 'svs': svs, 'inputs': [], 'feedback': []}


def gen_engine(r, n=None, shape=None):
    n = n or r.choice([1, 2, 3, 3, 4, 4, 5, 5, 6, 7, 8])
    base = r.choice(BASES)
    pool = task_pool(base)
    tasks = r.sample(pool, r.choice([1, 2, 2, 3]))
    if len(tasks) > 1 and r.random() < 0.3:
        # a pair that differs only by leading characters taken from the base package name
        tasks[1] = r.choice([base[-1], base[0], base[-1] + base[0]]) + tasks[0]
        tasks = [t for i, t in enumerate(tasks) if t != base and t not in tasks[:i]]
    used = set()
    algs = [gen_alg(r, used, tasks) for _ in range(n)]
    shape = shape or r.choice(['random', 'random', 'random', 'chain', 'diamond', 'star', 'layers'])
    for i, b in enumerate(algs):
        if i == 0:
            continue
        if shape == 'chain':
            srcs = [algs[i - 1]]
        elif shape == 'star':
            srcs = [algs[0]]
        elif shape == 'diamond':
            srcs = [algs[0]] if i < n - 1 or n < 3 else algs[1:n - 1]
        elif shape == 'layers':
            srcs = r.sample(algs[:i], min(i, 2)) if i % 2 == 0 else [algs[i - 1]]
        else:
            srcs = r.sample(algs[:i], r.choice([0, 1, 1, 2, 2, 3, i]) % (i + 1))
        for a in srcs:
            for _ in range(r.choice([1, 1, 1, 2])):
                b['inputs'].append(gen_ref(r, a))
        if b['inputs'] and r.random() < 0.1:
            b['inputs'].append(list(r.choice(b['inputs'])))  # the same reference twice
    for i, c in enumerate(algs):
        if n > 1 and r.random() < 0.35:
            for _ in range(r.choice([1, 1, 2])):
                later = [a for a in algs[i + 1:]] or [a for a in algs if a is not c]
                pool = later if r.random() < 0.75 else [a for a in algs if a is not c]
                c['feedback'].append(gen_ref(r, r.choice(pool)))
    order = list(range(n))
    r.shuffle(order)  # declaration order is unrelated to the dependency order
    return {'style': r.choice(['old', 'old', 'new']), 'base': base, 'algs': [algs[i] for i in order]}


def A(task, kind, name, svs, inputs=(), feedback=()):
    return {'task': task, 'kind': kind, 'name': name, 'svs': [[s, list(vs)] for s, vs in svs],
            'inputs': [list(x) for x in inputs], 'feedback': [list(x) for x in feedback]}


def corpus():
    """shapes that historically break graph builders"""
    out = []
    # chain of four with a value-level reference: ancestry needs three rounds
    out.append({'style': 'old', 'algs': [
        A('pa', 'task', 'a', [('s', 'vw')]),
        A('pa', 'task', 'a1', [('s', 'v')], [('V', 'pa', 'a', 's', 'w')]),
        A('pa', 'task', 'a10', [('s', 'v'), ('t', 'x')], [('S', 'pa', 'a1', 's')]),
        A('pb', 'task', 'b', [('s', 'v')], [('A', 'pa', 'a10')]),
        A('pb', 'analysis', 'c', [('s', 'v')], [('S', 'pb', 'b', 's')])]})
    # diamond with state-vector level references into an algorithm with two state vectors
    out.append({'style': 'new', 'algs': [
        A('pa', 'task', 'a', [('s', 'v'), ('t', 'vw')]),
        A('pa', 'task', 'b', [('s', 'v')], [('S', 'pa', 'a', 's')]),
        A('pa', 'task', 'c', [('s', 'v')], [('S', 'pa', 'a', 't')]),
        A('pa', 'task', 'd', [('s', 'v')], [('A', 'pa', 'b'), ('A', 'pa', 'c')])]})
    # feedback loop as in Test/ae/feedback: sensor reads the model's future value
    out.append({'style': 'old', 'algs': [
        A('p', 'task', 'command', [('request', 'v')]),
        A('p', 'task', 'sensor', [('measured', 'v')], [], [('A', 'p', 'model')]),
        A('p', 'task', 'sum', [('total', 'v')], [('A', 'p', 'command'), ('A', 'p', 'sensor')]),
        A('p', 'task', 'control', [('response', 'vw'), ('law', 'x')], [('A', 'p', 'sum')]),
        A('p', 'task', 'model', [('voltage', 'v')], [('V', 'p', 'control', 'response', 'v')]),
        A('p', 'task', 'output', [('actual', 'v')], [('A', 'p', 'model')])]})
    # two packages that depend on each other at task level (the task tree is cyclic, the engine is not)
    out.append({'style': 'old', 'algs': [
        A('pa', 'task', 'a', [('s', 'v')]),
        A('pb', 'task', 'b', [('s', 'v')], [('A', 'pa', 'a')]),
        A('pa', 'task', 'a1', [('s', 'v')], [('A', 'pb', 'b')])]})
    # analysis over tasks, regression over the analysis, a value fed back by two consumers
    out.append({'style': 'new', 'algs': [
        A('pa', 'analysis', 'n', [('s', 'v')], [('A', 'pa', 'a'), ('V', 'pb', 'b', 's', 'w')]),
        A('pa', 'regress', 'r', [('s', 'v')], [('A', 'pa', 'n')], [('V', 'pb', 'b', 's', 'w')]),
        A('pa', 'task', 'a', [('s', 'v')], [], [('S', 'pb', 'b', 's')]),
        A('pb', 'task', 'b', [('s', 'vw')], [('A', 'pa', 'a')])]})
    # shared input, prefix names, same state-vector and value names everywhere
    out.append({'style': 'old', 'algs': [
        A('p', 'task', 'a', [('s', 'v')]),
        A('p', 'task', 'a1', [('s', 'v')], [('V', 'p', 'a', 's', 'v')]),
        A('p', 'task', 'a10', [('s', 'v')], [('V', 'p', 'a', 's', 'v')]),
        A('pa', 'task', 'a', [('s', 'v')], [('V', 'p', 'a', 's', 'v'), ('V', 'p', 'a1', 's', 'v')])]})
    # ordinary task-package names that begin with letters of the base package name, factory
    # functions defined in the package (names.task_name derives the node prefix from the module)
    out.append({'style': 'old', 'base': 'ae', 'algs': [
        A('calib', 'task', 'dark', [('s', 'v')]),
        A('extract', 'task', 'spectrum', [('s', 'vw')], [('A', 'calib', 'dark')]),
        A('analyze', 'analysis', 'trend', [('s', 'v')], [('S', 'extract', 'spectrum', 's')])]})
    # two packages that differ only by such a prefix and own an algorithm of the same name
    out.append({'style': 'old', 'base': 'ae', 'algs': [
        A('mission', 'task', 'engine', [('s', 'v')]),
        A('emission', 'task', 'engine', [('s', 'v')], [('A', 'mission', 'engine')]),
        A('emission', 'task', 'fit', [('s', 'v')], [('V', 'emission', 'engine', 's', 'v')])]})
    out.append({'style': 'old', 'base': 'nae', 'algs': [
        A('network', 'task', 'engine', [('s', 'v')]),
        A('anetwork', 'regress', 'engine', [('s', 'v')], [('A', 'network', 'engine')])]})
    # a single algorithm; a lone root beside a chain
    out.append({'style': 'new', 'algs': [A('p', 'task', 'a', [('s', 'v')])]})
    out.append({'style': 'old', 'algs': [
        A('p', 'task', 'a', [('s', 'v')]), A('p', 'task', 'b', [('s', 'vw'), ('t', 'v')]),
        A('p', 'regress', 'c', [('s', 'v')], [('S', 'p', 'b', 't')])]})
    return out


def malformed(r):
    """engines outside the hypotheses of the theorems: correspondence only (no monitor)"""
    eng = gen_engine(r, n=r.choice([2, 3, 4]))
    algs = eng['algs']
    kind = r.choice(['fb-undeclared', 'in-undeclared', 'self-ref', 'empty-sv', 'no-sv'])
    a = r.choice(algs)
    others = [x for x in algs if x is not a]
    if kind == 'fb-undeclared':
        t = r.choice(others)
        a['feedback'].append(['V', t['task'], t['name'], t['svs'][0][0], 'zz'])
    elif kind == 'in-undeclared':
        t = r.choice(others)
        if not any(x[1:3] == [a['task'], a['name']] for x in t['inputs']):
            a['inputs'].append(['V', t['task'], t['name'], t['svs'][0][0], 'zz'])
    elif kind == 'self-ref':
        a['inputs'].append(gen_ref(r, a, 'V'))
    elif kind == 'empty-sv':
        a['svs'].append(['e', []])
    else:
        a['svs'] = []
        for x in algs:
            x['inputs'] = [y for y in x['inputs'] if y[0] == 'A' or y[1:3] != [a['task'], a['name']]]
            x['feedback'] = [y for y in x['feedback'] if y[0] == 'A' or y[1:3] != [a['task'], a['name']]]
    return kind, eng


# ---------------------------------------------------------------- running the real code
class CaseTimeout(Exception):
    pass


def _alarm(_sig, _frm):
    raise CaseTimeout()


def run_impl(eng):
    """(observation, error enum, build order); never raises"""
    import logging

    logging.disable(logging.CRITICAL)
    # CPU time of this process, not wall time: a loaded machine must not look like a hang
    old = signal.signal(signal.SIGVTALRM, _alarm)
    signal.setitimer(signal.ITIMER_VIRTUAL, CASE_TIMEOUT)
    try:
        return E.construct(eng)
    except CaseTimeout:
        return None, 'hangs', []
    except RecursionError:
        return None, 'RecursionError', []
    except Exception as e:  # pylint: disable=broad-except
        return None, type(e).__name__, []
    finally:
        signal.setitimer(signal.ITIMER_VIRTUAL, 0)
        signal.signal(signal.SIGVTALRM, old)


def to_sx(eng, order):
    """the engine as a driver line, algorithms in the order the real factories produce them"""
    byid = {(a['kind'], a['task'], a['name']): a for a in eng['algs']}
    seq = [byid[k] for k in order if k in byid]
    seq += [a for a in eng['algs'] if (a['kind'], a['task'], a['name']) not in set(order)]
    return common.sx(['dag', 'construct'] + [
        [a['task'], a['name'], a['kind'], [[s, list(vs)] for s, vs in a['svs']],
         [list(x) for x in a['inputs']], [list(x) for x in a['feedback']]] for a in seq])


def parse_model(line):
    m = common.parse_sx(line)
    if m[0] == 'error':
        return None, m[1]
    if m[0] != 'ok':
        return None, 'model:' + str(m)

    def tree(t):
        d = {}
        for part in t:
            if part[0] in ('roots', 'tags'):
                d[part[0]] = sorted(part[1:])
            else:
                d[part[0]] = {row[0]: sorted(row[1:]) for row in part[1:]}
        return d

    out = {'at': tree(m[1]), 'svt': tree(m[2]), 'tt': tree(m[3]), 'vt': tree(m[4]),
           'feedbacks': {kv[0]: kv[1] for kv in m[5][1:]}}
    return out, None


def compare(res, eng, obs, err, model, merr):
    case = {'engine': eng}
    if err is not None or merr is not None:
        if (err or 'ok') != (merr or 'ok'):
            res.diff('Dag.construct vs dag.Construct (outcome)', case, merr or 'ok', err or 'ok')
        return
    for name, _lvl in LEVELS:
        for key in ('roots', 'tags', 'children', 'feedback', 'ancestry', 'parents'):
            if key in model[name] and model[name][key] != obs[name][key]:
                res.diff('Dag.%s.%s vs dag.Construct' % (name, key), case, model[name][key], obs[name][key])
    consumers = {}
    for c in eng['algs']:
        for v in expand(eng, c['feedback']):
            consumers.setdefault(v, set()).add(alg_id(c))

    def canon(fbs):
        out = {}
        for v, c in fbs.items():
            algs = consumers.get(v, ())
            out[v] = trim(c, 2) if len(algs) <= 1 else ('one-of' if trim(c, 2) in algs else trim(c, 2))
        return out

    if canon(model['feedbacks']) != canon(obs['feedbacks']):
        res.diff('Dag.feedbacks vs Construct.feedbacks', case, model['feedbacks'], obs['feedbacks'])


def _work(item):
    tag, eng = item
    return tag, eng, run_impl(eng)


def run(ctx, res):
    r = common.rng(ctx['seed'], 'C09')
    thorough = ctx['tier'] == 'thorough' or ctx['escalate']
    res.rule = ('acyclic engines of 1-8 algorithms over task/analysis/regress bots of 1-3 packages (short base package '
                'names; task-package names that start with letters of the base name, pairs differing by such a prefix), 1-3 state '
                'vectors with 1-3 values each, references at algorithm, state-vector and value level, chains, '
                'diamonds, stars, layered and random DAGs, repeated references, feedback references; each is written '
                'to disk as a Python package (old factory style or auto-registered classes), loaded by '
                'pl.scan.for_factories and built by dag.Construct; non-trivial = at least one dependency edge; '
                'distinct by descriptor; a malformed stream (undeclared feedback/inputs, self references, empty '
                'state vectors) is compared with the model only')
    res.assumptions = list(TRUSTED)
    cases = [('corpus', e) for e in corpus()]
    n = 1600 if thorough else 220
    for _ in range(n):
        cases.append(('random', gen_engine(r)))
    for _ in range(n // 8):
        cases.append(('small', gen_engine(r, n=r.choice([1, 2, 2, 3]))))
    for _ in range(n // 6):
        kind, eng = malformed(r)
        cases.append(('malformed:' + kind, eng))
    done, hangs = [], 0
    E.TMP_PARENT = tempfile.mkdtemp(prefix='c09run_')  # workers inherit it; removed below even if they are killed
    try:
        if thorough:
            with multiprocessing.Pool(16) as pool:
                for item in pool.imap(_work, cases, chunksize=4):
                    done.append(item)
                    hangs += item[2][1] == 'hangs'
                    if hangs >= MAX_HANGS:
                        pool.terminate()
                        break
        else:
            for c in cases:
                done.append(_work(c))
                hangs += done[-1][2][1] == 'hangs'
                if hangs >= MAX_HANGS:
                    break
    finally:
        shutil.rmtree(E.TMP_PARENT, ignore_errors=True)
        E.TMP_PARENT = None
    if len(done) < len(cases):
        res.count('skipped-after-hangs', len(cases) - len(done))
    lines, pending = [], []
    for tag, eng, (obs, err, order) in done:
        wf = well_formed(eng) and acyclic(eng)
        if tag.startswith('malformed') and wf:
            tag = 'random'
        if not tag.startswith('malformed') and not wf:
            raise AssertionError('generator produced an engine outside the hypotheses: %r' % (eng,))
        res.count('case:' + tag)
        res.count('algorithms:%d' % len(eng['algs']))
        res.count('style:' + eng['style'])
        res.count('base:' + eng.get('base', 'fresh'))
        if any(a['task'][0] in eng.get('base', '') for a in eng['algs']):
            res.count('task-name-starts-with-base-letter')
        nedges = len(alg_edges(eng))
        res.count('edges:%s' % (nedges if nedges < 6 else '6+'))
        res.count('feedback:%s' % ('yes' if any(a['feedback'] for a in eng['algs']) else 'no'))
        res.count('outcome:' + (err or 'graph'))
        for a in eng['algs']:
            res.count('kind:' + a['kind'])
            for x in a['inputs']:
                res.count('ref:' + x[0])
        res.case(json.dumps(eng, sort_keys=True), nontrivial=nedges > 0,
                 sample={'engine': eng, 'at_children': obs['at']['children'] if obs else None,
                         'at_ancestry': obs['at']['ancestry'] if obs else None,
                         'feedbacks': obs['feedbacks'] if obs else None})
        if wf:
            monitor(eng, obs, err, res)
        if err in ('hangs', 'RecursionError') or (err is not None and err != 'KeyError'):
            if not wf:
                res.diff('dag.Construct raised on a malformed engine', {'engine': eng}, 'n/a', err)
            continue
        lines.append(to_sx(eng, order))
        pending.append((eng, obs, err))
    # Construct.trim against the model's trim on an exhaustive small grid
    import dawgie.pl.dag as dag
    grid = [(n, comps[:k]) for n in range(0, 6) for comps in (['pa', 'a1', 's', 'v', 'x'], ['p', 'p', 'p', 'p', 'p'])
            for k in range(1, 6)]
    glines = [common.sx(['dag', 'trim', n, list(cs)]) for n, cs in grid]
    if ctx['lean'] and lines:
        outs = common.driver(lines + glines, 'C09')
        for (eng, obs, err), o in zip(pending, outs):
            model, merr = parse_model(o)
            compare(res, eng, obs, err, model, merr)
        for (n, cs), o in zip(grid, outs[len(lines):]):
            impl = dag.Construct.trim('.'.join(cs), n) or '<empty>'
            res.count('trim-grid')
            if o.strip() != impl:
                res.diff('Dag.trim vs Construct.trim', {'length': n, 'tag': '.'.join(cs)}, o.strip(), impl)
        res.traces = len(pending)


def replay(rep, res):
    eng = rep['input']['engine']
    obs, err, _order = run_impl(eng)
    if well_formed(eng) and acyclic(eng):
        monitor(eng, obs, err, res)
