"""C05 — see harness/sched_run.py (shared scheduler histories, monitors and correspondence)."""
from . import sched_run

LEAN_TARGETS = ['DawgieVerif.Model.SchedIO', 'DawgieVerif.Model.WorkerIO']
TRUSTED = sched_run.TRUSTED
MANIFEST = dict(
    text='Lean theorems over Model/Sched.lean for a failure/invalid reply in any state reached by any history: withdrawn (target gone from the pending work of the failed algorithm and every node the recursive purge visits), pending_frame (other targets and unrelated algorithms unchanged; nobody gains pending work), executing_frame (executing work of every other algorithm untouched), queue_not_grown, outcome_recorded (history = old history ++ [entry]), executing_unit_is_queued; worker side (Props/C05Worker over Model/Worker + the clause table of pl.worker.cluster.execute regenerated from its AST on every run): worker_always_answers (every ending of a run -- normal return, the two invalid-data errors, any other Exception, SystemExit, KeyboardInterrupt -- produces an answer the farm books), worker_answer_table, worker_no_false_success; farm side (Props/C05Hand over Model/Hand + the tables of farm.Hand._translate/_res regenerated from their AST on every run): hand_res_is_reply (the regenerated _res equals the reply step of the scheduler model in every state), hand_translate_table, hand_calls, purgeNode_is_model / completeNode_is_model (Props/C05Gen: the node-local bodies of schedule._purge and schedule.complete regenerated from their AST are the definitions of the model), ending_to_calls / ending_to_state (ending of the run -> answer -> booked state -> complete then update only for a normal return, purge otherwise). Tied by correspondence with the real Hand._res/complete/purge; the monitor compares real node sets before/after each non-success reply against descriptor-level dependents. End to end (harness/c05_e2e.py): the algorithm ends with RuntimeError / NoValidInput/OutputDataError / sys.exit() / KeyboardInterrupt inside the REAL pl.worker.cluster.execute (in-memory sockets), its answer goes through the real Hand.dataReceived, and the same clauses plus the recorded outcome are checked on the real scheduler (tasks and analyses).',
    note='g.desc x (what _purge walks) is read from the real graph; that it is the set of transitive dependents is C09. chronicle.append is recorded by a fake (file format is C18). Trusted base as C01.',
    technique='Lean 4 proof: frame theorems by case analysis + invariant + differential correspondence',
    design='7/C05',
)
WANT = {'C05'}


def run(ctx, res):
    sched_run.run_all(ctx, res, WANT, 'C05')
    # end to end: the way an algorithm ends -> the real worker's answer (pl.worker.cluster.execute) -> the real
    # farm hand -> schedule.complete / purge, monitored against the descriptor-level dependents
    from . import c05_e2e
    c05_e2e.run(ctx, res)


def replay(rep, res):
    if str(rep.get('sig', '')).startswith('C05:e2e'):
        from . import c05_e2e
        c05_e2e.replay(rep, res)
    else:
        sched_run.replay_case(rep, res, WANT)
