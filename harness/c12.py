"""C12 — correspondence + monitor for submission priorities, wait flags and pollers of `FSM`.

Real code driven: the real `FSM` (real `transitions.Machine`, captured `deferToThread`), the real
`fe.submit.Process` / `fe.api.submit.Process` (`step_1`, `step_3` → `set_submit_info`,
`submit_crossroads`, `failure`), `fe.api.cmd_reset`, `farm.dispatch`, and the waiter loops
`is_crew_done / is_doing_done / is_todo_done` executed for real: `dawgie.pl.state.time.sleep` raises
`StillWaiting`, so each call of a captured thunk is exactly ONE evaluation of the real loop condition,
followed — when the loop exits — by the real `done` callback.  `farm._busy`, `schedule.view_doing`,
`schedule.que` are set by the harness; every `update_trigger` call is recorded with the
farm / schedule state at that instant.

Monitor (independent of the Lean model; reference = the submissions the harness itself made):
  * every update (not an operator reset) satisfies the condition of the strongest priority
    requested since the last reload;  * at most one accepted update per reload cycle;
  * the poller of the strongest priority fires at the first poll at which its condition holds;
  * after every history, letting work drain makes a pending submission take effect;
  * the recorded priority is the strongest requested;  * a refused submission changes nothing;
  * the same under the schedule in which a new poller thread runs its first loop test before deferToThread
    returns, and with request.finish() raising RuntimeError / OSError inside step_3 (client hung up).
"""
import itertools
import json
import os
import types

from . import common
from .c10_world import StillWaiting, World

LEAN_TARGETS = ['DawgieVerif.Model.SubmitIO']

MANIFEST = dict(
    text='Lean theorems over an executable model of FSM.set_submit_info / submit_crossroads / wait_for_* / the '
         'done callbacks, composed with the life-cycle model of C10 and with the priority lattice translated '
         'from tools.submit.Priority.max (priority_lattice: it is the maximum of NOW > CREW > DOING > TODO, for argument lists of any length): trigger_sound, trigger_once (+ accepted_means_reloading), '
         'refused_inactive for every history of submissions, resets, polls, environment changes and life-cycle '
         'events (induction over the event list with a state invariant); first_poll_fires; liveness as '
         'trigger_live_partial + later_submissions under the hypothesis Calm (life-cycle at rest in running '
         'whenever a waiter finds its condition satisfied), with the negation of the full statement proved on the '
         'composed model for both known findings (trigger_live_fails, trigger_live_fails_gitting). Tied to the real '
         'FSM by a correspondence run (real waiter loops single-stepped) and an independent monitor; Priority.max '
         'is grid-validated on all tuples of length <= 4.',
    note='Trusted: Lean kernel; propext/Classical.choice/Quot.sound only; tools/gen_c12.py, tools/gen_c10.py; '
         'harness fakes (deferToThread recorder, time.sleep -> StillWaiting, farm/schedule state set by the harness). '
         'Assumed: transitions dispatch rule (C10); one submission Process in flight at a time, step_3 once per '
         'Process; poll and done callback are one step (the window between the pool thread\'s last read and the '
         'reactor callback is not exhibited); threading.Event set/clear/wait as booleans. Partial: liveness only '
         'under Calm - known findings C12:update-while-archiving and C12:update-while-gitting (the waiter calls '
         'update_trigger outside running, MachineError in the Deferred callback, submission lost).',
    technique='Lean 4 proof (invariants by induction over histories; life-cycle interface closed by kernel-checked '
              'case analysis of the finite control state) + differential correspondence',
    design='7/C12',
)

TRUSTED = [
    'transitions.Machine dispatch rule, as for C10 (Model/Fsm.exec)',
    'one submission Process in flight at a time and step_3 once per Process (cf. known findings C10:submit-overlap, '
    'C10:legacy-double-step3)',
    'one poll of a waiter loop and its done() callback are one step: the window between the pool thread\'s last '
    'read and the reactor callback is not exhibited',
    'threading.Event.set/clear/wait modelled as a boolean; wait_timeout set to 0 in the harness',
]

ORDER = {'TODO': 0, 'DOING': 1, 'CREW': 2, 'NOW': 3}
VALUE = {'NOW': 'now', 'CREW': 'crew_idle', 'DOING': 'doing_empty', 'TODO': 'todo_empty', 'BOGUS': 'whenever'}
KIND = {'CREW': 'crew', 'DOING': 'doing', 'TODO': 'todo'}
KNOWN_CAUSES = ('C12:update-while-archiving', 'C12:update-while-gitting')
# clauses that hold only while the life-cycle stays at rest in running (`trigger_live_partial`): they alone can
# be consequences of a known cause; soundness / once / refused / strongest are always reported as themselves
CONSEQUENCES = ('C12:submission-lost', 'C12:poll-did-not-fire')


def allows(prio, env):
    busy, doing, que = env
    return {'NOW': True, 'CREW': not busy, 'DOING': not doing, 'TODO': not que}[prio]


class CV(list):
    """C12 violations; a liveness clause remembers whether a known cause was pending when it was detected"""

    def __init__(self, w):
        super().__init__()
        self.w = w

    def append(self, item):
        super().append((item[0], item[1], self.w.cause if item[0] in CONSEQUENCES else None))


class SubmitWorld(World):
    """World + the environment the pollers read + the recorder of update_trigger"""

    def __init__(self):
        super().__init__()
        def sleep(_s):
            raise StillWaiting()

        self.state.time = types.SimpleNamespace(sleep=sleep)
        self.env = (False, False, False)
        self.schedule.view_doing = lambda: ({'job': ['T']} if self.env[1] else {})

    def set_env(self, env):
        self.env = tuple(bool(x) for x in env)
        self.farm._busy.clear()
        if self.env[0]:
            self.farm._busy.append('a.b[T]')
        self.schedule.que.clear()
        if self.env[2]:
            self.schedule.que.append('a.b')

    def fresh(self, archive0=False, env=(False, False, False)):
        fsm = super().fresh(archive0)
        fsm.wait_timeout = 0
        self.set_env(env)
        self.updates = []           # every update_trigger call
        self.who = None
        self.forced = False
        self.ref = []               # priorities of the submissions accepted since the last reset (own bookkeeping)
        self.ref_cycle = 0
        self.accepted_cycle = {}    # cycle -> number of accepted updates
        self.cause = None           # known cause seen in the current cycle
        self.cv = CV(self)          # C12 violations

        def hook(call):
            if call['trigger'] == 'update_trigger':
                u = {'who': self.who, 'forced': self.forced, 'prio': getattr(fsm.priority, 'name', None),
                     'env': self.env, 'observed': (bool(self.farm._busy), bool(self.schedule.view_doing()),
                                                   bool(self.schedule.que)),
                     'active': bool(fsm.is_pipeline_active()), 'from': fsm.state, 'cycle': self.resets, 'call': call}
                self.updates.append(u)

        self.trigger_hook = hook
        return fsm

    # ---------------------------------------------------------------- bookkeeping
    def strongest(self):
        return max(self.ref, key=ORDER.get) if self.ref else None

    def _sync_cycle(self):
        if self.resets != self.ref_cycle:
            self.ref_cycle = self.resets
            self.ref = []
            self.cause = None

    def waiters(self, kind=None):
        return [r for r in self.pending if r.kind in ('crew', 'doing', 'todo') and (kind is None or r.kind == kind)]

    def obs(self, n_upd):
        f = self.fsm
        s = self.snapshot()
        ups = []
        for u in self.updates[n_upd:]:
            u['accepted'] = u['call']['raised'] is None
            ups.append((u['who'] or 'N', u['forced'], u['prio'] or 'N', u['observed'], u['active'], u['accepted'],
                        u['cycle']))
        return (s['state'], s['tr'], tuple(r.kind for r in self.life()), s['priority'] or 'N') + s['flags'] + \
            s['slots'] + (self.resets, tuple(ups))

    # ---------------------------------------------------------------- monitor
    def check_updates(self, n_upd):
        """soundness and once, for the update_trigger calls of this event"""
        for u in self.updates[n_upd:]:
            accepted = u['call']['raised'] is None
            if accepted:
                self.accepted_cycle[u['cycle']] = self.accepted_cycle.get(u['cycle'], 0) + 1
                if self.accepted_cycle[u['cycle']] > 1:
                    self.cv.append(('C12:update-twice', f'second accepted update_trigger in reload cycle {u["cycle"]}'))
            if u['forced']:
                continue
            p = self.strongest_at_update
            if p is None:
                self.cv.append(('C12:update-without-submission',
                                f'update_trigger fired by {u["who"] or "wait_for_nothing"} although nothing was '
                                'submitted since the last reload'))
            elif not allows(p, u['observed']):
                self.cv.append(('C12:update-too-early',
                                f'update_trigger fired by {u["who"] or "wait_for_nothing"} while the strongest priority '
                                f'requested since the last reload is {p} and busy/doing/que = {u["observed"]}'))
            if not accepted:
                st = u['from']
                sig = {'archiving': 'C12:update-while-archiving', 'gitting': 'C12:update-while-gitting'}.get(
                    st, 'C12:update-rejected-in-' + st)
                if u['call']['raised'] != 'MachineError':
                    sig = 'C12:update-raised-' + str(u['call']['raised'])
                self.cv.append((sig, f'update_trigger called by the {u["who"]} waiter while the life-cycle is in {st}: '
                                     f'{u["call"]["raised"]} in the Deferred callback, the submission is not applied'))
                if sig in KNOWN_CAUSES:
                    self.cause = self.cause or sig

    # ---------------------------------------------------------------- events
    def ev(self, e):
        """apply one harness event; returns the observation"""
        self.set_env(self.env)   # the real farm.clear() of FSM.load empties farm._busy: the harness' environment rules
        self._sync_cycle()
        n_upd = len(self.updates)
        self.strongest_at_update = self.strongest()
        self.who, self.forced = None, False
        if e == 'boot':
            self.ev_boot()
        elif e.startswith('sb'):
            which = 'old' if e[2] == 'o' else 'api'
            before = self.snapshot()
            nsub = len(self.subs)
            self.ev_submit_begin(which, submission=VALUE[e.split(':')[1]])
            sub = self.subs[-1] if len(self.subs) > nsub else None
            if sub is not None and getattr(sub, 'refused', False) and not sub.passed_step1 and \
                    self.snapshot() != before:
                self.cv.append(('C12:refused-submission-had-effect',
                                'a submission refused because the pipeline is not active changed '
                                f'{ {k: (before[k], v) for k, v in self.snapshot().items() if before[k] != v} }'))
            if sub is not None:
                sub.prio = e.split(':')[1]
        elif e in ('sd', 'sdR', 'sdO'):
            sub = self.proc
            if sub is not None and e != 'sd':
                # the client dropped the connection after the submission was accepted: request.finish() raises
                sub.request.finish_exc = RuntimeError('Request.finish called on a request after its connection '
                                                      'was lost') if e == 'sdR' else OSError('broken pipe')
            self.ev_submit_end(True)
            if self.eager:
                # eager schedule: a poller started by this step_3 already ran its first loop test; if it ended,
                # its done() callback reaches the reactor now, with crew / doing / queue unchanged
                for rec in [r for r in self.pending if getattr(r, 'finished', False)]:
                    self.who = rec.kind
                    marks = (self._mark_calls, self._mark_moves, self._mark_resets)
                    self._begin()
                    self.deliver_finished()
                    self._end('complete')
                    self._mark_calls, self._mark_moves, self._mark_resets = marks
                    break
            if sub is not None:
                calls = [c for c in self.calls[self._mark_calls:] if c['depth'] == 0]
                if calls and calls[0]['trigger'] == 'running_trigger' and calls[0]['raised'] is None:
                    if sub.cleared == 0:
                        self.cv.append(('C12:submit-busy-stuck',
                                        f'step_3 of the accepted submission on the {sub.endpoint} endpoint brought the '
                                        'life-cycle back to running but never released the endpoint (clear() not '
                                        'called): every later submission is turned away'))
                    p = sub.prio if sub.prio in ORDER else 'TODO'
                    self.ref.append(p)
                    # this step_3 went through set_submit_info and the crossroads: whatever an earlier known finding
                    # left behind (armed event, no poller), the wait is (re)started here - liveness is owed again
                    self.cause = None
                    top = self.strongest()
                    if top != 'NOW' and self.accepted_cycle.get(self.resets, 0) == 0 and not self.waiters(KIND[top]) \
                            and not any(u['call']['raised'] is None for u in self.updates[n_upd:]):
                        self.cv.append(('C12:no-poller-after-crossroads',
                                        f'step_3 went through the crossroads with {top} the strongest priority requested '
                                        f'since the last reload ({self.ref}) and no reload under way, but no {KIND[top]} '
                                        f'poller exists (slots {self.snapshot()["slots"]}, flags set '
                                        f'{self.snapshot()["flags"]}): nothing will ever call update_trigger'))
                    self.strongest_at_update = self.strongest()
                    want = self.strongest()
                    got = getattr(self.fsm.priority, 'name', None)
                    if self.resets == self.ref_cycle and got != want:
                        self.cv.append(('C12:priority-not-strongest',
                                        f'after submitting {self.ref} since the last reload FSM.priority is {got}, '
                                        f'the strongest requested is {want}'))
        elif e == 'sf':
            self.ev_submit_end(False)
        elif e == 'da':
            self.ev_dispatch()
        elif e == 'fa':
            self.ev_flag()
        elif e in ('rnF', 'rnT'):
            self.forced = True
            self.ev_reset(e == 'rnT')
        elif e[0] == 'c':
            self.ev_complete(int(e[1:-1]), e[-1] == 'T')
        elif e[0] == 'p':
            self.poll({'C': 'crew', 'D': 'doing', 'T': 'todo'}[e[1]])
        elif e.startswith('env:'):
            self.set_env(tuple(ch == '1' for ch in e[4:]))
        else:
            raise ValueError(e)
        self.check_updates(n_upd)
        self._sync_cycle()
        return self.obs(n_upd)

    def poll(self, kind):
        """one evaluation of the real loop condition of the poller in slot `kind`"""
        self.set_env(self.env)
        recs = self.waiters(kind)
        self._begin()
        if not recs:
            self._end('idle')
            return
        self.who = kind
        p = self.strongest()
        n_upd = len(self.updates)
        expect = (p is not None and p != 'NOW' and KIND[p] == kind and allows(p, self.env)
                  and self.accepted_cycle.get(self.resets, 0) == 0)
        try:
            self.run_rec(recs[0])
        except StillWaiting:
            pass
        self._end('complete')
        fired = [u for u in self.updates[n_upd:]]
        if expect and not any(u['call']['raised'] is None for u in fired):
            if not fired:
                self.cv.append(('C12:poll-did-not-fire',
                                f'the {kind} poller found its condition satisfied (busy/doing/que = {self.env}) while '
                                f'{p} is the strongest priority requested, and did not call update_trigger'))
            # a rejected call is reported by check_updates with the state it was rejected in

    def finish(self):
        """let the work drain: a pending submission must take effect"""
        self._sync_cycle()
        p = self.strongest()
        if p is None or not self.booted:
            return
        cyc = self.resets
        if self.accepted_cycle.get(cyc, 0):
            return
        if self.proc is not None:
            self.ev('sf')
        self.ev('env:000')
        for _ in range(6):
            self.drain(None)
            for k in ('crew', 'doing', 'todo'):
                if self.waiters(k):
                    n = len(self.updates)
                    self.strongest_at_update = self.strongest()
                    self.poll(k)
                    self.check_updates(n)
            if self.accepted_cycle.get(cyc, 0) or self.resets != cyc:
                return
        self.cv.append(('C12:submission-lost',
                        f'{self.ref} submitted since the last reload; with crew, doing and queue empty and the '
                        f'life-cycle back at {self.fsm.state}/{self.fsm.transitioning.name} no poller '
                        f'(slots {self.snapshot()["slots"]}, flags set {self.snapshot()["flags"]}) ever calls update_trigger'))


def model_ev(e, w_prio):
    if e == 'boot':
        return 'boot'
    if e.startswith('sb'):
        return 'sb'
    if e in ('sd', 'sdR', 'sdO'):
        return ['sd', w_prio]
    if e == 'sf':
        return 'sf'
    if e in ('da', 'fa'):
        return e
    if e in ('rnF', 'rnT'):
        return ['rn', e == 'rnT']
    if e[0] == 'c':
        return ['c', int(e[1:-1]), e[-1] == 'T']
    if e[0] == 'p':
        return ['poll', {'C': 'crew', 'D': 'doing', 'T': 'todo'}[e[1]]]
    if e.startswith('env:'):
        return ['env'] + [ch == '1' for ch in e[4:]]
    raise ValueError(e)


def report(w, res, replay):
    for sig, what, cause in w.cv:
        if cause and sig in CONSEQUENCES:
            # detected while a known finding of this reload cycle was still pending (no later submission went
            # through the crossroads since)
            res.hit(cause, what + f' (consequence of {cause} earlier in this reload cycle)', replay)
        else:
            res.hit(sig, what, replay)
    for sig, what in w.violations:
        if sig in ('C10:legacy-double-step3', 'C10:submit-overlap'):
            continue
        res.hit('C12:life-cycle:' + sig, what, replay)


def run_history(w, archive0, env0, events, res, eager=False):
    w.fresh(archive0, env0)
    w.eager = bool(eager)
    obs, mevs = [], []
    for e in events:
        prio = 'TODO'
        if e in ('sd', 'sdR', 'sdO') and w.proc is not None:
            p = getattr(w.proc, 'prio', 'TODO')
            prio = p if p in ORDER else 'TODO'
        mevs.append(model_ev(e, prio))
        obs.append(w.ev(e))
    replay = {'kind': 'hist', 'archive0': bool(archive0), 'env0': [bool(x) for x in env0], 'events': list(events)}
    if eager:
        replay['eager'] = True
    w.finish()
    w.eager = False
    report(w, res, replay)
    return obs, mevs


def record(res, lines, pending, archive0, env0, events, obs, mevs, tag):
    lines.append(common.sx(['sub', 'hist', bool(archive0), [bool(x) for x in env0]] + mevs))
    pending.append(({'archive0': bool(archive0), 'env0': list(env0), 'events': list(events)}, obs))
    nup = sum(len(o[-1]) for o in obs)
    res.case((archive0, tuple(env0), tuple(events)), nontrivial=nup > 0,
             sample={'archive0': bool(archive0), 'events': list(events),
                     'updates': [list(map(str, u)) for o in obs for u in o[-1]][:4]})
    res.count('hist:' + tag)
    for o in obs:
        for u in o[-1]:
            res.count(f'update:{u[0]}:{"forced" if u[1] else u[2]}:{"accepted" if u[5] else "rejected"}')


def canon_model(x):
    st, tr, outs, prio, sc, sd, stt, tc, td, tt, cyc, ups = x
    b = lambda v: v == 'T'  # noqa: E731
    return (st, tr, tuple(outs), prio, b(sc), b(sd), b(stt), b(tc), b(td), b(tt), int(cyc),
            tuple((u[0], b(u[1]), u[2], tuple(b(v) for v in u[3]), b(u[4]), b(u[5]), int(u[6])) for u in ups))


BOOT = ['boot', 'c0F', 'c0F']
CORPUS = [
    # after a known finding, a later submission of the same or a weaker priority goes through the crossroads:
    # a poller must exist again and the reload must fire once the condition holds
    (False, '001', BOOT + ['sb:TODO', 'sd', 'sb:TODO', 'env:000', 'pT', 'env:001', 'sd', 'pT', 'env:000', 'pT']),
    (False, '010', BOOT + ['sb:DOING', 'sd', 'sbo:TODO', 'env:000', 'pD', 'env:010', 'sd', 'pD', 'env:000', 'pD']),
    (True, '100', BOOT + ['sb:CREW', 'sd', 'env:000', 'da', 'pC', 'c0T', 'env:100', 'sb:CREW', 'sd', 'env:000', 'pC']),
    # the known findings first (deterministic): waiter fires while archiving / while another submission is gitting
    (False, '001', BOOT + ['sb:TODO', 'sd', 'fa', 'da', 'env:000', 'pT', 'c0F']),
    (False, '001', BOOT + ['sb:TODO', 'sd', 'sb:TODO', 'env:000', 'pT', 'sf']),
    # F-C12 replay: submit TODO; submit NOW; reload; submit TODO; queue drains => update must now fire
    (False, '001', BOOT + ['sb:TODO', 'sd', 'pT', 'sb:NOW', 'sd', 'c0F', 'c0F', 'c0F', 'sbo:TODO', 'sd', 'pT', 'env:000', 'pT']),
    # the same with the cancelled poller leaving before the reload ends, and with DOING / CREW
    (False, '001', BOOT + ['sb:TODO', 'sd', 'sb:NOW', 'sd', 'pT', 'c0F', 'c0F', 'c0F', 'sb:TODO', 'sd', 'env:000', 'pT']),
    (False, '010', BOOT + ['sb:DOING', 'sd', 'sb:NOW', 'sd', 'c0F', 'c0F', 'c0F', 'sb:DOING', 'sd', 'pD', 'env:000', 'pD']),
    (False, '100', BOOT + ['sb:CREW', 'sd', 'pC', 'sb:NOW', 'sd', 'c0F', 'pC', 'c0F', 'c0F', 'sb:CREW', 'sd', 'pC', 'env:000', 'pC']),
    # stronger overtakes weaker step by step; the cancelled pollers leave; only the CREW condition counts
    (False, '111', BOOT + ['sb:TODO', 'sd', 'sb:DOING', 'sd', 'sb:CREW', 'sd', 'pT', 'pD', 'pC', 'env:011', 'pT', 'pD', 'pC']),
    # weaker after stronger does not demote
    (False, '110', BOOT + ['sb:CREW', 'sd', 'sb:TODO', 'sd', 'sb:DOING', 'sd', 'env:100', 'pT', 'pD', 'pC', 'env:010', 'pC']),
    # weaker cancelled, stronger waits, conditions of the weaker ones true: must not fire
    (False, '100', BOOT + ['sb:TODO', 'sd', 'sb:CREW', 'sd', 'pT', 'pD', 'pC', 'env:000', 'pT', 'pC']),
    # operator reset while a waiter waits, then the same priority again in the next cycle
    (False, '001', BOOT + ['sb:TODO', 'sd', 'rnT', 'pT', 'c0F', 'c0T', 'c0F', 'c0F', 'sb:TODO', 'sd', 'env:000', 'pT']),
    # refused submissions: before boot, while loading, while updating
    (False, '000', ['sb:NOW', 'sd', 'boot', 'sb:CREW', 'c0F', 'sbo:TODO', 'c0F', 'rnF', 'sb:NOW', 'sd', 'c0F', 'sb:DOING']),
    # malformed priority string defaults to TODO
    (False, '001', BOOT + ['sb:BOGUS', 'sd', 'pT', 'env:000', 'pT']),
    # failure of a submission keeps the earlier wait
    (False, '010', BOOT + ['sb:DOING', 'sd', 'pD', 'env:000', 'sb:CREW', 'sf', 'pD']),
    # archive excursion between polls that do not fire
    (True, '001', BOOT + ['sb:TODO', 'sd', 'da', 'pT', 'c0T', 'env:000', 'pT']),
]

# schedule "the new poller thread runs its first loop test before deferToThread returns" (a real thread that wins
# the race against the statements that follow in wait_for_*): submissions made while their condition does NOT hold
# must not reload.  Monitor only (the model treats poll and callback as one step after wait_for_* returned).
EAGER_CORPUS = [
    (False, '010', BOOT + ['sb:DOING', 'sd', 'pD', 'env:000', 'pD']),
    (False, '100', BOOT + ['sb:CREW', 'sd', 'pC', 'env:000', 'pC']),
    (False, '001', BOOT + ['sb:TODO', 'sd', 'pT', 'env:000', 'pT']),
    (False, '111', BOOT + ['sb:TODO', 'sd', 'sbo:DOING', 'sd', 'sb:CREW', 'sd', 'pT', 'pD', 'pC', 'env:000', 'pC']),
    (False, '011', BOOT + ['sb:TODO', 'sd', 'sb:NOW', 'sd', 'c0F', 'c0F', 'c0F', 'sb:DOING', 'sd', 'env:001', 'pD']),
    (False, '000', BOOT + ['sb:DOING', 'sd', 'c0F', 'c0F', 'c0F', 'env:110', 'sb:CREW', 'sd', 'pC']),
]
# the client hangs up after the submission was accepted: request.finish() raises inside step_3 (RuntimeError is
# what Twisted raises once the connection is lost; OSError; nothing) on both endpoints
FINISH_CORPUS = [
    (False, '001', BOOT + ['sb:TODO', 'sdR', 'env:000', 'pT']),
    (False, '001', BOOT + ['sbo:TODO', 'sdR', 'env:000', 'pT']),
    (False, '010', BOOT + ['sb:DOING', 'sdO', 'sbo:CREW', 'sdO', 'sb:NOW', 'sdR', 'c0F', 'c0F', 'c0F', 'sbo:TODO', 'sdR', 'pT']),
]

EVENTS = (['sb:TODO', 'sb:DOING', 'sb:CREW', 'sb:NOW', 'sbo:TODO', 'sbo:CREW', 'sb:BOGUS', 'sd', 'sd', 'sd', 'sdR', 'sdO', 'sf', 'da', 'fa',
           'rnF', 'rnT', 'c0F', 'c0F', 'c0F', 'c0T', 'pC', 'pD', 'pT', 'pC', 'pD', 'pT']
          + ['env:' + ''.join(b) for b in itertools.product('01', repeat=3)])


def gen_random(r):
    ev = list(BOOT) if r.random() < 0.9 else ['boot']
    n = r.choice([6, 10, 16, 24, 40])
    i = 0
    while i < n:
        e = r.choice(EVENTS)
        ev.append(e)
        if e.startswith('sb') and r.random() < 0.7:
            ev.append(r.choice(['sd', 'sd', 'sd', 'sdR', 'sdO']))
            i += 1
        i += 1
    return r.random() < 0.25, ''.join(r.choice('01') for _ in range(3)), ev


def enumerate_short(w, res, lines, pending, depth):
    """every sequence of length <= depth after boot + one TODO wait with the queue busy over a small alphabet
    (stronger submissions, polls, queue/crew changes, archive, completions)"""
    alpha = ['sb:NOW', 'sb:CREW', 'sb:TODO', 'sd', 'sf', 'fa', 'da', 'c0F', 'pT', 'pC', 'env:000', 'env:101', 'rnF']
    prefix = BOOT + ['sb:TODO', 'sd']
    n = 0
    for k in range(1, depth + 1):
        for seq in itertools.product(alpha, repeat=k):
            events = prefix + list(seq)
            obs, mevs = run_history(w, False, (False, False, True), events, res)
            record(res, lines, pending, False, (False, False, True), events, obs, mevs, 'enum')
            n += 1
    return n


def grid_priority(w, res, lines, gpending):
    import dawgie.tools.submit as ts

    members = [None] + list(ts.Priority)
    for k in range(0, 5):
        for tup in itertools.product(members, repeat=k):
            impl = ts.Priority.max(*tup).name
            lines.append(common.sx(['sub', 'max'] + [m.name if m else None for m in tup]))
            gpending.append((tuple(m.name if m else 'N' for m in tup), impl))
            ref = max([m.name for m in tup if m] or ['TODO'], key=ORDER.get)
            if impl != ref:
                res.hit('C12:priority-lattice', f'Priority.max{tuple(m.name if m else None for m in tup)} = {impl}, '
                        f'the strongest is {ref}', {'kind': 'max', 'args': [m.name if m else None for m in tup]})
    res.count('grid:Priority.max', len(gpending))


def run(ctx, res):
    w = SubmitWorld()
    r = common.rng(ctx['seed'], 'C12')
    thorough = ctx['tier'] == 'thorough' or ctx['escalate']
    res.rule = ('histories on the real FSM: submissions of every priority through the real Process.step_1/step_3/'
                'failure on both endpoints, operator resets, single polls of the real waiter loops, changes of '
                'crew/doing/queue, dispatch archives, completions; non-trivial = update_trigger was called; '
                'distinct by event list. thorough: every sequence of length <= 4 over 13 events after a TODO wait; '
                'Priority.max on all 781 tuples of length <= 4')
    res.assumptions = list(TRUSTED)
    lines, pending, glines, gpending = [], [], [], []
    for archive0, env0, events in CORPUS:
        env = tuple(c == '1' for c in env0)
        obs, mevs = run_history(w, archive0, env, events, res)
        record(res, lines, pending, archive0, env, events, obs, mevs, 'corpus')
    cdir = os.path.join(common.VERIF, 'corpus', 'C12')
    if os.path.isdir(cdir):
        for f in sorted(os.listdir(cdir)):
            c = json.load(open(os.path.join(cdir, f)))
            obs, mevs = run_history(w, c['archive0'], tuple(c['env0']), c['events'], res)
            record(res, lines, pending, c['archive0'], tuple(c['env0']), c['events'], obs, mevs, 'corpus')
    for archive0, env0, events in FINISH_CORPUS:
        env = tuple(c == '1' for c in env0)
        obs, mevs = run_history(w, archive0, env, events, res)
        record(res, lines, pending, archive0, env, events, obs, mevs, 'corpus')
    for archive0, env0, events in EAGER_CORPUS:
        run_history(w, archive0, tuple(c == '1' for c in env0), events, res, eager=True)
        res.count('hist:eager-corpus')
    for _ in range(15000 if thorough else 1200):
        archive0, env0, events = gen_random(r)
        env = tuple(c == '1' for c in env0)
        obs, mevs = run_history(w, archive0, env, events, res)
        record(res, lines, pending, archive0, env, events, obs, mevs, 'random')
    for _ in range(3000 if thorough else 300):
        archive0, env0, events = gen_random(r)
        run_history(w, archive0, tuple(c == '1' for c in env0), events, res, eager=True)
        res.count('hist:eager-random')
    n = enumerate_short(w, res, lines, pending, 4 if thorough else 2)
    res.count('enumerated', n)
    res.exhaustive = thorough
    grid_priority(w, res, glines, gpending)
    if ctx['lean']:
        outs = common.driver(lines + glines, 'C12')
        for (case, impl), o in zip(pending, outs[:len(lines)]):
            m = common.parse_sx(o)
            try:
                model = [canon_model(x) for x in m]
            except Exception:  # pylint: disable=broad-except
                model = m
            if model != impl:
                k = next((i for i, (a, b) in enumerate(zip(model, impl)) if a != b), 0)
                res.diff('Submit.step vs real FSM (history)', dict(case, first_diverging_event=k),
                         repr(model[k:k + 1]), repr(impl[k:k + 1]))
        for (args, impl), o in zip(gpending, outs[len(lines):]):
            if o.strip() != impl:
                res.diff('Generated.Prio.max vs tools.submit.Priority.max', {'args': list(args)}, o.strip(), impl)
        res.traces = len(pending)


def replay(rep, res):
    """re-run the recorded input; report it again only if the recorded failure (same signature) is still there"""
    tmp = common.Result()
    _replay(rep, tmp)
    want = rep.get('sig')
    for h in tmp.hits:
        if want is None or h['sig'] == want:
            res.hit(h['sig'], h['what'], h['replay'])


def _replay(rep, res):
    inp = rep['input']
    if inp.get('kind') == 'max':
        import dawgie.tools.submit as ts

        args = [ts.Priority[a] if a else None for a in inp['args']]
        impl = ts.Priority.max(*args).name
        ref = max([a for a in inp['args'] if a] or ['TODO'], key=ORDER.get)
        if impl != ref:
            res.hit('C12:priority-lattice', f'Priority.max{tuple(inp["args"])} = {impl}, the strongest is {ref}', inp)
        return
    w = SubmitWorld()
    run_history(w, inp['archive0'], tuple(inp['env0']), inp['events'], res, eager=inp.get('eager', False))
