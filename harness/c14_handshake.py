"""C14, second half: security.TwistedWrapper.process on the three channels, against
Model/Handshake.lean.  `_PGP` is a table-driven fake (a packet verifies iff it starts with b'OK',
decryption strips the marker); the challenge text is made deterministic by replacing the
`datetime` and `random` names of dawgie.security."""
import struct
import types

from . import common

CHALLENGE = 'timestamp: T0\nunique id: 0.5'


class FakePGP:
    @staticmethod
    def verify(data):
        return types.SimpleNamespace(valid=bytes(data).startswith(b'OK'))

    @staticmethod
    def decrypt(data):
        return types.SimpleNamespace(data=bytes(data)[2:])


def install(ch):
    sec = ch.security
    ch.req_func['func'] = ch.req_func['acquire']  # keep the db connection open across messages
    sec._PGP = FakePGP
    sec.datetime = types.SimpleNamespace(
        datetime=types.SimpleNamespace(now=lambda tz=None: 'T0'), UTC=None
    )
    sec.random = types.SimpleNamespace(random=lambda: 0.5)


def be4(n):
    return struct.pack('>I', n)


def frame(m):
    return be4(len(m)) + m


KINDS = ['valid', 'valid', 'valid', 'bad-first-word', 'bad-id-signature', 'bad-second-word',
         'bad-echo', 'bad-reply-signature', 'truncated', 'empty-id', 'empty-reply',
         'echo-empty', 'echo-first-line', 'echo-second-line', 'echo-extra-line', 'echo-prefix']


def gen_stream(r, kind):
    hid = b'OK' + bytes(r.choice(b'abcdefgh') for _ in range(r.randrange(0, 6)))
    reply = b'OK' + CHALLENGE.encode()
    w1, w3 = 4, 4
    if kind == 'bad-first-word':
        w1 = r.choice([0, 3, 5, 1 << 20])
    if kind == 'bad-id-signature':
        hid = b'NO' + hid[2:]
    if kind == 'bad-second-word':
        w3 = r.choice([0, 3, 5, 77])
    if kind == 'bad-echo':
        reply = b'OK' + CHALLENGE.encode()[:-1] + b'6'
    if kind == 'echo-empty':
        reply = b'OK'
    if kind == 'echo-first-line':
        reply = b'OK' + CHALLENGE.split('\n')[0].encode()
    if kind == 'echo-second-line':
        reply = b'OK' + CHALLENGE.split('\n')[1].encode()
    if kind == 'echo-extra-line':
        reply = b'OK' + CHALLENGE.encode() + b'\nextra: 1'
    if kind == 'echo-prefix':
        reply = b'OK' + CHALLENGE.encode()[: r.randrange(1, len(CHALLENGE) - 1)]
    if kind == 'bad-reply-signature':
        reply = b'KO' + CHALLENGE.encode()
    if kind == 'empty-id':
        hid = b''
    if kind == 'empty-reply':
        reply = b''
    tail_msgs = [bytes(r.randrange(256) for _ in range(r.choice([0, 1, 2, 5, 9])))
                 for _ in range(r.choice([0, 1, 2, 3]))]
    tail = b''.join(frame(m) for m in tail_msgs)
    if r.random() < 0.3 and tail:
        tail = tail[: r.randrange(len(tail))]  # incomplete last frame
    stream = be4(w1) + be4(len(hid)) + hid + be4(w3) + be4(len(reply)) + reply + tail
    if kind == 'truncated':
        stream = stream[: r.randrange(len(stream) - len(tail))] if len(stream) > len(tail) else stream
    return stream, tail


def deliver(ch, kind, chunks):
    """feed the chunks as a Twisted transport would: nothing after loseConnection"""
    proto, got = {'farm': ch.hand, 'db': ch.dbworker, 'log': ch.logsink}[kind](('10.0.0.1', 7))
    for c in chunks:
        if proto.transport.closed:
            break
        try:
            proto.dataReceived(c)
        except Exception as e:  # pylint: disable=broad-except
            # Twisted logs the failure and drops the connection
            got.append(('EXC:' + type(e).__name__).encode())
            proto.transport.closed += 1
            break
    return {'closed': proto.transport.closed > 0, 'sent': len(proto.transport.written),
            'delivered': list(got)}


def complete_frames(tail):
    out, i = [], 0
    while i + 4 <= len(tail):
        n = struct.unpack('>I', tail[i:i + 4])[0]
        if i + 4 + n > len(tail):
            break
        out.append(tail[i + 4:i + 4 + n])
        i += 4 + n
    return out


def one_case(ch, res, r, kind, stream, tail, chunks, lines, pending):
    impl = {}
    for channel in ('farm', 'db', 'log'):
        got = deliver(ch, channel, chunks)
        whole = deliver(ch, channel, [stream])
        impl[channel] = got
        rep = {'kind': 'hs', 'channel': channel, 'case': kind, 'chunks': [list(c) for c in chunks]}
        # monitor: the property on the implementation
        if kind != 'valid' and got['delivered']:
            res.hit(f'C14:hs-gate:{channel}',
                    f'{channel}: payload processed although the handshake is {kind}', rep)
        if kind not in ('valid', 'truncated') and not got['closed']:
            res.hit(f'C14:hs-fail-open:{channel}',
                    f'{channel}: failed handshake ({kind}) did not close the connection', rep)
        if kind == 'valid':
            want = complete_frames(tail)
            if got['delivered'] != want or got['closed']:
                res.hit(f'C14:hs-tail:{channel}',
                        f'{channel}: bytes after the final handshake packet not delivered once, in order', rep)
        if (got['delivered'], got['closed']) != (whole['delivered'], whole['closed']):
            res.hit(f'C14:hs-chunking:{channel}',
                    f'{channel}: chunked handshake stream behaves differently from whole delivery', rep)
    lines.append(common.sx(['hs', 'hs', CHALLENGE.encode()] + [bytes(c) for c in chunks])
                 .replace('(hs hs ', '(hs ', 1))
    pending.append(('hs', chunks, impl))
    res.case(('hs', kind, tuple(chunks)), nontrivial=len(chunks) > 1,
             sample={'handshake': kind, 'chunks': [c.hex() for c in chunks],
                     'delivered': [m.hex() for m in impl['farm']['delivered']]})
    res.count('hs:' + kind)


def run(ctx, res, ch, r, lines, pending):
    from .c14 import all_chunkings, random_chunking

    install(ch)
    thorough = ctx['tier'] == 'thorough' or ctx['escalate']
    n = 600 if thorough else 120
    for _ in range(n):
        kind = r.choice(KINDS)
        stream, tail = gen_stream(r, kind)
        one_case(ch, res, r, kind, stream, tail, random_chunking(r, stream), lines, pending)
    if thorough:
        # every single split position of one valid and one invalid stream
        for kind in ('valid', 'bad-echo', 'bad-id-signature'):
            stream, tail = gen_stream(r, kind)
            for i in range(len(stream) + 1):
                one_case(ch, res, r, kind, stream, tail, [stream[:i], stream[i:]], lines, pending)
            for i in range(0, len(stream), 3):
                for j in range(i, len(stream), 5):
                    one_case(ch, res, r, kind, stream, tail,
                             [stream[:i], stream[i:j], stream[j:]], lines, pending)


def compare(res, chunks, impl, o):
    m = common.parse_sx(o)
    model = {'closed': m[0] == 'T', 'sent': int(m[2]),
             'delivered': [bytes(int(b) for b in x) for x in m[3]]}
    if m[4] == 'T':
        res.diff('Handshake model reached a struct error', {'chunks': [list(c) for c in chunks]}, o, None)
    for channel, got in impl.items():
        if got != model:
            res.diff(f'Handshake.feedAllT vs TwistedWrapper.process on {channel}',
                     {'chunks': [list(c) for c in chunks]},
                     {k: (v if k != 'delivered' else [list(x) for x in v]) for k, v in model.items()},
                     {k: (v if k != 'delivered' else [list(x) for x in v]) for k, v in got.items()})


def replay(inp, res, ch):
    install(ch)
    chunks = [bytes(c) for c in inp['chunks']]
    r = common.rng(0, 'replay')
    stream = b''.join(chunks)
    # recover the tail for the 'valid' oracle: everything after the reply packet
    tail = b''
    if inp['case'] == 'valid':
        i = 8 + struct.unpack('>I', stream[4:8])[0]
        i = i + 8 + struct.unpack('>I', stream[i + 4:i + 8])[0]
        tail = stream[i:]
    one_case(ch, res, r, inp['case'], stream, tail, chunks, [], [])
