def run(ctx, res, ch, r, lines, pending):
    return


def compare(res, chunks, impl, o):
    return


def replay(inp, res, ch):
    return
