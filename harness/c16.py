"""C16 — the compliance gate accepts exactly the engines that follow the architecture.

Every case is an abstract engine descriptor (harness/c16_pkg.py) written to disk as a REAL
algorithm-engine package and put through the real `tools.compliant._scan` + `_verify`
(per-rule results as `_verify` prints them), the real `_walk` with recording callbacks, and — when
accepted — the real `pl.scan.for_factories` + `dag.Construct` + `schedule.build/periodics`.

Monitor (the property, independent of the Lean model):
  * an engine built to follow every rule is accepted, task by task, whatever factories it offers;
  * an engine with ONE injected violation of one rule at one position is rejected;
  * every accepted (acyclic) engine is turned into a task graph and scheduled without exception.
Correspondence: descriptor -> `Pkg` -> Lean `verify / runRule / walkCount / construct` via
lean/Driver/C16.lean against the real per-rule results, callback counts and build outcome."""
import copy
import glob
import json
import os
import signal

from . import common
from . import c16_pkg as P

LEAN_TARGETS = ['DawgieVerif.Model.CompliantIO']

MANIFEST = dict(
    text='Lean theorems over an executable model of tools.compliant (_verify; _walk as a regenerated '
         'table of callback calls with their enclosing loops and receiver variables; rule_01..rule_11; '
         'any exception counts as failure; factories called with the arities of the source): gate_exact '
         '(verify p = true <-> Compliant p for EVERY abstract package p, Compliant being the architecture '
         'stated position by position without the gate\'s control flow), gate_exact_engine, one rejection '
         'theorem per rule class (no factory, signature, raising factory, base types, abstract methods, '
         'dotted names, empty state vectors, module of previous(), pickling, reference element types, '
         'missing state vectors, moments, resolution), walk_well_scoped (every call of the generated _walk '
         'table is made on the variable of the innermost enclosing loop: the repaired F-C16 site), '
         'accepted_schedulable, gate_blind_to_run. Tie: translator (rule names, Factories order, fargs, '
         'call table, callbacks per rule, rule_01 signature table, direct call arities) regenerated on '
         'every run; every descriptor is written to disk as a real package (three factory styles, two '
         'module layouts) and put through the real _scan/_verify (per-rule results), the real _walk '
         '(callback counts) and, when accepted, the real for_factories + dag.Construct + '
         'schedule.build/periodics; compared with the Lean model through the driver.',
    note='Trusted: Lean kernel; tools/gen_c16.py; harness/c16_pkg.py, which IS the descriptor<->package '
         'relation: Python import, inspect.signature, isinstance, pickle and the name look-ups of rule_11 '
         'are flags of the abstract package computed from the descriptor (modelled, not verified). '
         'Not observable by the gate and therefore not part of Compliant: whether run()/view()/features() '
         'are overridden (rule_03\'s docstring promises all abstract methods; gate_blind_to_run proves '
         'the model accepts such a package and the harness confirms it on the real gate); an SV_REF/ALG_REF '
         'whose own item carries no keys expands to no value reference and resolves vacuously (run and '
         'counted as a documented gap, outside the descriptor space). rule_10 checks types, not ranges: '
         'dom/dow stay in range here (DESIGN 5.1). accepted_schedulable is stated over this check\'s own '
         'minimal failure-point model of Construct/build/periodics, not over C09\'s DAG model; termination '
         'of Construct._ancestry on acyclic inputs is C09\'s subject and is only exercised here (30 s '
         'watchdog). Factories are assumed to forward `prefix` as the bot name (no rule checks it; a '
         'factory that does not yields a graph whose dependants are never queued, without any exception). '
         'With the registry scan pattern a module without any class deriving from '
         'Algorithm/Analyzer/Regression is not part of the engine and is not verified (counted, no alarm).',
    technique='Lean 4 proof (decision logic stated outright; case analysis over all packages; generated '
              'tables closed by simp/decide) + differential correspondence on materialised packages',
    design='7/C16',
)

TRUSTED = [
    'descriptor<->package relation of harness/c16_pkg.py: Python import, inspect.signature, isinstance, '
    'pickle and the name look-ups of rule_11 are represented by flags computed from the descriptor',
    'dag.Construct.graph replaced by a walk without `dot`; dawgie.db.targets and the reactor faked for '
    'schedule.build / schedule.periodics',
    'factories forward `prefix` as the bot name (not checked by any rule)',
]

KINDS = P.KINDS
ALLKINDS = P.ALLKINDS
RNAME = {'task': 'alg', 'analysis': 'anz', 'regress': 'reg'}


# ------------------------------------------------------------------ compliant engines
def _slot_ref(r, slot, eng, for_kind, feedback=False):
    """a well-formed reference to routine `slot` = (task, kind, ri)"""
    t, k, ri = slot
    tgt = P.task_of(eng, t)['factories'][k]['bot']['routines'][ri]
    kinds = ['sv', 'v'] if (for_kind != 'task' or feedback) else ['alg', 'sv', 'v']
    kind = r.choice(kinds)
    si = r.randrange(len(tgt['svs']))
    vi = r.randrange(len(tgt['svs'][si]['values']))
    return P.mk_ref(kind, [t, k, ri, si, vi])


GOOD_MOMENTS = [{'boot': 'T'}, {'boot': 'F'}, {'boot': 'T', 'time': 'ok'}, {'dow': 'ok', 'time': 'ok'},
                {'dom': 'ok', 'time': 'ok'}, {'day': 'ok', 'time': 'ok'}]


def gen_engine(r, ntasks=None, kinds_of=None, style=None, rich=True, layout=None):
    """A random engine that follows every rule.  Inputs only point to routines created earlier
    (acyclic); feedback may point anywhere."""
    ntasks = ntasks or r.choice([1, 1, 2, 2, 3])
    eng = P.mk_engine([], style=style or r.choice(['old', 'old', 'old', 'base', 'auto']),
                      layout=layout or r.choice(['flat', 'split']))
    auto = eng['style'] == 'auto'
    slots = []
    for ti in range(ntasks):
        tname = 't%d' % ti
        ks = kinds_of[ti] if kinds_of else None
        if ks is None:
            ks = [k for k in ALLKINDS if r.random() < 0.5] or [r.choice(ALLKINDS)]
        if auto and not [k for k in ks if k != 'events']:
            ks = list(ks) + [r.choice(KINDS)]  # the registry pattern only sees modules that define classes
        facs = {}
        task = P.mk_task(tname, facs)
        eng['tasks'].append(task)
        for k in KINDS:
            if k not in ks:
                continue
            facs[k] = P.mk_factory(k, P.mk_bot([]))
            routines = facs[k]['bot']['routines']
            for ri in range(r.choice([1, 1, 2]) if rich else 1):
                svs = []
                for si in range(r.choice([1, 1, 2]) if rich else 1):
                    keys = ['k%d' % i for i in range(r.choice([1, 2, 3]) if rich else 1)]
                    svs.append(P.mk_sv('%ssv%d' % (RNAME[k][0], si), keys))
                rt = P.mk_routine('%s%d' % (RNAME[k], ri), svs=svs)
                routines.append(rt)
                ndeps = r.choice([0, 1, 1, 2]) if slots else 0
                for _ in range(ndeps):
                    rt['deps'].append(_slot_ref(r, r.choice(slots), eng, k))
                slots.append((tname, k, ri))
        if 'events' in ks:
            mine = [s for s in slots if s[0] == tname]
            pool = mine if auto else (mine or slots)
            evs = []
            for _ in range(r.choice([1, 2] if auto else [0, 1, 2]) if pool else 0):
                s = r.choice(pool)
                evs.append(P.mk_event([s[1], s[2], s[0]], r.choice(GOOD_MOMENTS),
                                      via='direct' if auto else r.choice(['schedule', 'schedule', 'direct'])))
            if evs or not auto:
                facs['events'] = P.mk_factory('events', evs)
    # feedback: anywhere (also downstream), SV/V references
    if slots and rich:
        for _ in range(r.choice([0, 0, 1, 2])):
            t, k, ri = r.choice(slots)
            rt = P.task_of(eng, t)['factories'][k]['bot']['routines'][ri]
            rt['feedback'].append(_slot_ref(r, r.choice(slots), eng, k, feedback=True))
    return eng


def corpus_engines():
    """the shapes that historically break such gates"""
    out = []
    # every non-empty subset of factory kinds in one package (F-C16: regress without analysis)
    for mask in range(1, 16):
        ks = [k for i, k in enumerate(ALLKINDS) if mask >> i & 1]
        r = common.rng(mask, 'C16-corpus')
        out.append(('subset:' + '+'.join(ks), gen_engine(r, 1, [ks], 'old', rich=False,
                                                         layout=['flat', 'split'][mask % 2])))
    r = common.rng(0, 'C16-corpus2')
    # regression with its own feedback, no analysis (the repaired wrong-variable site)
    a0 = P.mk_routine('alg0', svs=[P.mk_sv('sv0', ['k0', 'k1'])])
    rg = P.mk_routine('reg0', svs=[P.mk_sv('rsv', ['r0'])],
                      deps=[P.mk_ref('v', ['t0', 'task', 0, 0, 1])],
                      feedback=[P.mk_ref('sv', ['t0', 'task', 0, 0, 0])])
    out.append(('regress+feedback', P.mk_engine([
        P.mk_task('t0', {'task': P.mk_factory('task', P.mk_bot([a0]))}),
        P.mk_task('t1', {'regress': P.mk_factory('regress', P.mk_bot([rg]))})])))
    # analysis and regress in one package, both with feedback: each must be read on its own object
    an = P.mk_routine('anz0', svs=[P.mk_sv('asv', ['a0'])], deps=[P.mk_ref('sv', ['t0', 'task', 0, 0, 0])],
                      feedback=[P.mk_ref('v', ['t0', 'task', 0, 0, 0])])
    rg2 = copy.deepcopy(rg)
    out.append(('analysis+regress feedback', P.mk_engine([
        P.mk_task('t0', {'task': P.mk_factory('task', P.mk_bot([copy.deepcopy(a0)]))}),
        P.mk_task('t1', {'analysis': P.mk_factory('analysis', P.mk_bot([an])),
                         'regress': P.mk_factory('regress', P.mk_bot([rg2]))})], layout='split')))
    # chain / diamond / cross-kind / prefix-named tasks
    for i in range(6):
        out.append(('shape%d' % i, gen_engine(common.rng(i, 'C16-shape'), 3, None, ['old', 'base', 'auto'][i % 3])))
    for i in range(3):
        out.append(('auto%d' % i, gen_engine(common.rng(i, 'C16-auto'), 2, None, 'auto')))
    e = gen_engine(r, 2, [['task'], ['task', 'analysis', 'regress', 'events']], 'old')
    e['tasks'][0]['name'], e['tasks'][1]['name'] = 'a', 'ab'
    _rename_task(e, 't0', 'a')
    _rename_task(e, 't1', 'ab')
    out.append(('prefix task names', e))
    return out


def _rename_task(eng, old, new):
    for _t, _k, _ri, rt in routines_of(eng):
        for ref in rt['deps'] + rt['feedback']:
            if ref['to'][0] == old:
                ref['to'][0] = new
            if ref['impl'] == 'twin:' + old:
                ref['impl'] = 'twin:' + new
    for t in eng['tasks']:
        f = t['factories'].get('events')
        for ev in (f['events'] if f else []):
            if len(ev['to']) > 2 and ev['to'][2] == old:
                ev['to'][2] = new


# ------------------------------------------------------------------ positions
def routines_of(eng):
    for t in eng['tasks']:
        for k in KINDS:
            f = t['factories'].get(k)
            if f:
                for ri, rt in enumerate(f['bot']['routines']):
                    yield t['name'], k, ri, rt


def fix_refs(eng):
    """keep references buildable after state vectors / keys were removed from their target"""
    for _t, _k, _ri, rt in routines_of(eng):
        for ref in rt['deps'] + rt['feedback']:
            tgt = P.task_of(eng, ref['to'][0])['factories'][ref['to'][1]]['bot']['routines'][ref['to'][2]]
            if ref['kind'] != 'alg' and ref['impl'] != 'ghost' and ref['item'] in ('real', 'duck'):
                if not tgt['svs']:
                    ref['kind'] = 'alg'
                    continue
                si = ref['to'][3]
                if ref['kind'] == 'v' and ref['feat'] == 'real' and not tgt['svs'][si]['values']:
                    ref['kind'] = 'sv'


# ------------------------------------------------------------------ single-rule violations
def violations(eng):
    """yields (rule class, tag, task whose package breaks the rule, mutated engine): ONE violation
    of one rule at one position, for every applicable position of `eng`"""
    def mut():
        return copy.deepcopy(eng)

    tasks = [t['name'] for t in eng['tasks']]
    for x in _violations(eng, mut, tasks):
        # registry pattern: factories, bots and events are synthesised by the scanner; a class that
        # does not derive from its dawgie base is simply not part of the engine
        if eng.get('style') == 'auto' and (
                x[0] == 'R01-signature' or x[1].endswith((':factory-raises', ':bot-not-base',
                ':list-not-overridden', ':routine-not-base', ':no-routines', 'event:not-EVENT', ':schedule'))):
            continue
        yield x


def _violations(eng, mut, tasks):
    for ti, t in enumerate(eng['tasks']):
        tn = t['name']
        for k in ALLKINDS:
            f = t['factories'].get(k)
            if not f:
                continue
            # R01 factory signature
            good = P.good_params(k)
            variants = [('extra-param', good + [['extra', ['o'], None]])]
            if good:
                variants += [
                    ('missing-param', good[:-1]),
                    ('wrong-default', [good[0], [good[1][0], ['i', 1], good[1][2]]] + good[2:]),
                    ('prefix-default', [[good[0][0], ['s', 'x'], good[0][2]]] + good[1:]),
                    ('no-annotation', [[good[0][0], good[0][1], None]] + good[1:]),
                    ('wrong-annotation', good[:-1] + [[good[-1][0], good[-1][1], 'other']]),
                    ('defaults-dropped', [[q[0], None, q[2]] for q in good]),
                ]
            for tag, params in variants:
                e = mut()
                e['tasks'][ti]['factories'][k]['params'] = params
                yield 'R01-signature', '%s:%s' % (k, tag), tn, e
            e = mut()
            e['tasks'][ti]['factories'][k]['raises'] = True
            yield 'R03-abstract', '%s:factory-raises' % k, tn, e
            if k == 'events':
                for ei, ev in enumerate(f['events']):
                    e = mut()
                    e['tasks'][ti]['factories'][k]['events'][ei].update(isevent=False, via='direct')
                    yield 'R02-base-type', 'event:not-EVENT', tn, e
                    for tag, m in [('none-defined', {'time': 'ok'}), ('two-defined', {'boot': 'T', 'dow': 'ok', 'time': 'ok'}),
                                   ('two-defined-b', {'dom': 'ok', 'day': 'ok', 'time': 'ok'}),
                                   ('day-bad', {'day': 'bad', 'time': 'ok'}), ('dom-bad', {'dom': 'bad', 'time': 'ok'}),
                                   ('dow-bad', {'dow': 'bad', 'time': 'ok'}), ('no-time', {'dow': 'ok'}),
                                   ('time-bad', {'dom': 'ok', 'time': 'bad'}), ('all-defined', {'boot': 'T', 'day': 'ok', 'dom': 'ok', 'dow': 'ok', 'time': 'ok'})]:
                        for via in ('direct', 'schedule'):
                            e = mut()
                            ev2 = e['tasks'][ti]['factories'][k]['events'][ei]
                            ev2['moment'] = dict({'boot': 'N', 'day': 'N', 'dom': 'N', 'dow': 'N', 'time': 'N'}, **m)
                            ev2['via'] = via
                            yield 'R10-moment', 'event:%s:%s' % (tag, via), tn, e
                continue
            # bots
            for tag, upd in [('bot-not-base', {'base': False}), ('list-not-overridden', {'list': False})]:
                e = mut()
                e['tasks'][ti]['factories'][k]['bot'].update(upd)
                yield ('R02-base-type' if 'base' in upd else 'R03-abstract'), '%s:%s' % (k, tag), tn, e
            for ri, rt in enumerate(f['bot']['routines']):
                def at(e):
                    return e['tasks'][ti]['factories'][k]['bot']['routines'][ri]
                for cls, tag, upd in [
                        ('R02-base-type', 'routine-not-base', {'base': False}),
                        ('R03-abstract', 'name-not-implemented', {'name_impl': False}),
                        ('R03-abstract', 'inputs-not-implemented', {'deps_impl': False}),
                        ('R03-abstract', 'state_vectors-not-implemented', {'svs_impl': False}),
                        ('R03-abstract', 'version-broken', {'ver': False}),
                        ('R03-abstract', 'inputs-not-a-list', {'deps_list': False}),
                        ('R03-abstract', 'state_vectors-not-a-list', {'svs_list': False}),
                        ('R04-dotted-name', 'routine-name', {'name': rt['name'][:1] + '.' + rt['name'][1:]}),
                        ('R09-no-state-vector', 'no-state-vectors', {'svs': []})]:
                    e = mut()
                    at(e).update(upd)
                    fix_refs(e)
                    yield cls, '%s:%s' % (k, tag), tn, e
                for si, s in enumerate(rt['svs']):
                    for cls, tag, upd in [
                            ('R02-base-type', 'sv-not-base', {'base': False}),
                            ('R03-abstract', 'sv-name-not-implemented', {'name_impl': False}),
                            ('R03-abstract', 'sv-version-broken', {'ver': False}),
                            ('R04-dotted-name', 'sv-name', {'name': 's.' + s['name']}),
                            ('R05-empty-state-vector', 'sv-empty', {'values': []})]:
                        e = mut()
                        at(e)['svs'][si].update(upd)
                        fix_refs(e)
                        yield cls, '%s:%s' % (k, tag), tn, e
                    for vi, v in enumerate(s['values']):
                        for cls, tag, upd in [
                                ('R02-base-type', 'value-not-base', {'base': False}),
                                ('R03-abstract', 'value-version-broken', {'ver': False}),
                                ('R04-dotted-name', 'value-key', {'key': v['key'] + '.x'}),
                                ('R07-unpicklable', 'value-dumps', {'pickle': 'dumps'}),
                                ('R07-unpicklable', 'value-loads', {'pickle': 'loads'})]:
                            e = mut()
                            at(e)['svs'][si]['values'][vi].update(upd)
                            yield cls, '%s:%s' % (k, tag), tn, e
                for where in ('deps', 'feedback'):
                    for xi, ref in enumerate(rt[where]):
                        muts = [('R02-base-type', 'ref-not-REF', {'reftype': False}),
                                ('R08-reference-elements', 'factory-not-function', {'factory': 'callable'}),
                                ('R08-reference-elements', 'impl-not-algorithm', {'impl': 'duck'}),
                                ('R11-unresolvable', 'algorithm-unknown', {'impl': 'ghost'})]
                        if ref['kind'] != 'alg':
                            muts += [('R08-reference-elements', 'item-not-statevector', {'item': 'duck'}),
                                     ('R11-unresolvable', 'statevector-unknown', {'item': 'ghost'})]
                        if ref['kind'] == 'v':
                            muts += [('R08-reference-elements', 'feat-not-str', {'feat': 'int'}),
                                     ('R11-unresolvable', 'feature-unknown', {'feat': 'missing'})]
                        if k != 'task' and where == 'deps':
                            muts += [('R03-abstract', 'alg-ref-as-trait', {'kind': 'alg'})]
                        if k == 'task' and where == 'deps':
                            others = [x for x in tasks if not ('%s' % x).startswith(ref['to'][0])]
                            if others:
                                muts += [('R06-previous-module', 'impl-from-other-module',
                                          {'impl': 'twin:' + others[0]})]
                        for cls, tag, upd in muts:
                            e = mut()
                            at(e)[where][xi].update(upd)
                            yield cls, '%s:%s:%s' % (k, where, tag), tn, e
            # a bot that hands out no routine at all (only where nothing refers to the routines)
            refs_here = any(ref['to'][0] == tn and ref['to'][1] == k
                            for _t, _k, _ri, r2 in routines_of(eng) for ref in r2['deps'] + r2['feedback'])
            evs_here = any(ev['to'][0] == k and (len(ev['to']) < 3 or ev['to'][2] == tn)
                           for t2 in eng['tasks'] for ev in (t2['factories'].get('events') or {'events': []})['events'])
            if not refs_here and not evs_here:
                e = mut()
                e['tasks'][ti]['factories'][k]['bot']['routines'] = []
                yield 'R03-abstract', '%s:no-routines' % k, tn, e


# ------------------------------------------------------------------ one case
class Hang(Exception):
    pass


def _alarm(_s, _f):
    raise Hang('dag.Construct/schedule.build did not return within 30 s')


def real_walk_counts(task_module):
    """the real `_walk` with a recorder behind every callback parameter"""
    import dawgie.tools.compliant as compliant

    counts = {c: 0 for c in CBS}

    def rec(name):
        def f(_x):
            counts[name] += 1
            return True
        return f

    try:
        with P.quiet():
            compliant._walk(task_module, **{c: rec(c) for c in CBS})
    except Exception:  # pylint: disable=broad-except
        return 'raise'
    return counts


CBS = ('ifbot', 'ifalg', 'ifsv', 'ifv', 'ifanl', 'ifanz', 'ifret', 'ifrec', 'ifref', 'ifmom')


def run_case(res, eng, expect, tag, lines, pending, cls=None, hit_task=None, do_build=True):
    """expect: 'compliant' | 'violation' | 'gap' (accepted although a rule is broken in a way the
    gate cannot see; recorded, never an alarm) | None (correspondence only)"""
    rep = {'engine': eng, 'expect': expect, 'tag': tag, 'cls': cls, 'task': hit_task}
    with P.Loaded(eng) as L:
        passed, per, scanned = L.gate()
        mods = ['%s.%s' % (L.root, t['name']) for t in eng['tasks']]
        ok_of = {m: bool(per.get(m)) and all(per[m].values()) for m in mods}
        missing = [m for m in mods if m not in per]
        unseen = [m for m in missing if P.visible(eng, m.split('.', 1)[1])]
        built = None
        if passed and not unseen and do_build:
            old = signal.signal(signal.SIGALRM, _alarm)
            signal.alarm(30)
            try:
                built, info = L.build()
            except Hang as e:
                built, info = str(e), {}
            finally:
                signal.alarm(0)
                signal.signal(signal.SIGALRM, old)
        walks = {m: real_walk_counts(m) for m in mods if m in per}
        pk = {m: P.pkg_sx(eng, L.root, m.split('.', 1)[1]) for m in mods}
        root = L.root
    short = lambda m: m.split('.', 1)[1]  # noqa: E731
    # ---- monitor
    if unseen and expect in ('compliant', 'violation'):
        # the scanner dropped a package that is part of the engine: the gate never looked at it
        res.hit('C16:package-not-verified', 'package(s) %s are part of the engine but were not verified'
                % [short(m) for m in unseen], rep)
    if missing and not unseen:
        res.count('package-outside-registry-scan')
        if expect == 'violation' and '%s.%s' % (root, hit_task) in missing:
            expect = None  # the broken package is not part of the engine the pipeline loads
    if expect == 'compliant':
        for m in mods:
            if m in per and not ok_of[m]:
                bad = sorted(r for r, v in per[m].items() if not v)
                kinds = '+'.join(sorted(P.task_of(eng, short(m))['factories']))
                res.hit('C16:compliant-rejected:%s' % bad[0],
                        'a package offering [%s] that follows every rule is rejected (%s fail)'
                        % (kinds, ','.join(bad)), rep)
        if passed and built is not None:
            res.hit('C16:accepted-not-schedulable:%s' % built.split(':')[0],
                    'an accepted acyclic engine cannot be turned into a task graph / scheduled: ' + built, rep)
    elif expect == 'violation':
        if passed:
            res.hit('C16:violation-accepted:%s' % cls,
                    'an engine that breaks one rule (%s at %s of package %s) is accepted' % (cls, tag, hit_task), rep)
        if passed and built is not None:
            res.count('accepted-violation-not-schedulable')
    elif expect == 'gap':
        res.count('gap:%s:%s' % (tag, 'accepted' if passed else 'rejected'))
    # ---- correspondence
    for m in mods:
        if m not in per:
            continue
        lines.append(common.sx(['compliant', 'verify', pk[m]]))
        pending.append(('verify', tag, m, [per[m].get(r) for r in P.RULES], ok_of[m],
                        built if passed else 'not-built', rep))
        lines.append(common.sx(['compliant', 'walk', pk[m]]))
        pending.append(('walk', tag, m, walks[m], None, None, rep))
    nontrivial = len(scanned) > 0
    res.case((tag, P.common.sx([pk[m] for m in mods])), nontrivial=nontrivial,
             sample={'tag': tag, 'expect': expect, 'passed': passed,
                     'packages': {short(m): '+'.join(sorted(P.task_of(eng, short(m))['factories'])) for m in mods},
                     'failed_rules': {short(m): sorted(r for r, v in per.get(m, {}).items() if not v) for m in mods}})
    res.count('verdict:%s:%s' % (expect, 'accepted' if passed else 'rejected'))
    if cls:
        res.count('violation:' + cls)
    for t in eng['tasks']:
        res.count('factories:' + '+'.join(sorted(t['factories'])))
    if passed and do_build:
        res.count('built:' + ('ok' if built is None else 'error'))
    return passed


def compare(res, pending, outs):
    for (what, tag, m, impl, ok, built, rep), o in zip(pending, outs):
        model = common.parse_sx(o)
        if what == 'verify':
            if not isinstance(model, list) or model[0] == 'bad-op':
                res.diff('Compliant.verify (driver)', {'tag': tag, 'module': m}, model, impl)
                continue
            mv = [x == 'T' for x in model[1]]
            if mv != impl or (model[0] == 'T') != ok:
                res.diff('Compliant.runRule vs tools.compliant rule results',
                         {'tag': tag, 'module': m, 'engine': rep['engine']},
                         dict(zip(P.RULES, mv)), dict(zip(P.RULES, impl)))
            if built != 'not-built' and model[0] == 'T':
                if (model[2] == 'ok') != (built is None):
                    res.diff('Compliant.construct vs dag.Construct/schedule.build',
                             {'tag': tag, 'module': m, 'engine': rep['engine']}, model[2], built)
        else:
            mw = 'raise' if model == 'raise' else {c: int(n) for c, n in model}
            if mw != impl:
                res.diff('Compliant.walkCount vs tools.compliant._walk callback counts',
                         {'tag': tag, 'module': m, 'engine': rep['engine']}, mw, impl)


def check_tables(res, model):
    """the generated tables against what the loaded module says at run time"""
    import inspect

    import dawgie
    import dawgie.tools.compliant as compliant

    names = list(compliant._get_rules())
    if model[0] != names:
        res.diff('Generated.ruleNames vs _get_rules()', {}, model[0], names)
    order = [e.name for e in dawgie.Factories]
    if model[1] != order:
        res.diff('Generated.factoryOrder vs list(dawgie.Factories)', {}, model[1], order)
    res.count('generated-tables-checked')


def gaps():
    """packages that break the letter of a rule in a way the gate cannot observe (documented in
    MANIFEST.note; never an alarm): they are run so that a change in behaviour is visible"""
    a0 = P.mk_routine('alg0', svs=[P.mk_sv('sv0', ['k0'])])
    norun = P.mk_engine([P.mk_task('t0', {'task': P.mk_factory('task', P.mk_bot([
        P.mk_routine('alg0', svs=[P.mk_sv('sv0', ['k0'])], run=False)]))})])
    a1 = P.mk_routine('alg1', svs=[P.mk_sv('sv1', ['k0'])],
                      deps=[P.mk_ref('sv', ['t0', 'task', 0, 0], item='ghost_empty')])
    ghost = P.mk_engine([P.mk_task('t0', {'task': P.mk_factory('task', P.mk_bot([a0, a1]))})])
    return [('run-not-overridden', norun), ('svref-to-unknown-empty-statevector', ghost)]


def run(ctx, res):
    r = common.rng(ctx['seed'], 'C16')
    thorough = ctx['tier'] == 'thorough'
    escalated = ctx['escalate'] and not thorough
    res.rule = ('engine descriptors materialised as real packages: every subset of factory kinds, random '
                'acyclic dependency shapes over 1-3 task packages (ALG/SV/V references, feedback, events), '
                'and one injected violation per rule class at every applicable position; distinct by the '
                'abstract package sent to the Lean model; non-trivial = the scanner found a package to verify')
    res.assumptions = list(TRUSTED)
    lines, pending = ['(compliant tables)'], [None]
    # past failures first (corpus/C16/*.json: the inputs of F-C16)
    for f in sorted(glob.glob(os.path.join(common.VERIF, 'corpus', 'C16', '*.json'))):
        c = json.load(open(f))
        run_case(res, c['engine'], c['expect'], 'corpus:' + os.path.basename(f)[:-5], lines, pending,
                 cls=c.get('cls'), hit_task=c.get('task'))
    bases = corpus_engines()
    for tag, eng in bases:
        run_case(res, eng, 'compliant', tag, lines, pending)
    for tag, eng in gaps():
        run_case(res, eng, 'gap', tag, lines, pending)
    nrand = 60 if thorough else 30 if escalated else 14
    rbases = [('rand%d' % i, gen_engine(r)) for i in range(nrand)]
    for tag, eng in rbases:
        run_case(res, eng, 'compliant', tag, lines, pending)
    # single-rule violations: every position of the corpus shapes (thorough) / a seeded sample (quick)
    budget = 6000 if thorough else 2500 if escalated else 1100
    pool = []
    for tag, eng in bases + rbases:
        for cls, vtag, tn, e in violations(eng):
            pool.append((cls, '%s/%s' % (tag, vtag), tn, e))
    if len(pool) > budget:
        # keep every kind of violation (rule class x what is broken x which factory) represented:
        # round-robin over the kinds after a seeded shuffle
        r.shuffle(pool)
        by = {}
        for x in pool:
            by.setdefault((x[0], x[1].split('/', 1)[1]), []).append(x)
        pool = []
        while len(pool) < budget and any(by.values()):
            for c in sorted(by):
                if by[c] and len(pool) < budget:
                    pool.append(by[c].pop())
        res.count('violation-kinds', len(by))
    else:
        res.exhaustive = False
    for cls, vtag, tn, e in pool:
        run_case(res, e, 'violation', vtag, lines, pending, cls=cls, hit_task=tn, do_build=False)
    if ctx['lean']:
        outs = common.driver(lines, 'C16')
        check_tables(res, common.parse_sx(outs[0]))
        compare(res, pending[1:], outs[1:])
        res.traces = len(pending) - 1


def replay(rep, res):
    inp = rep['input']
    run_case(res, inp['engine'], inp['expect'], inp['tag'], [], [], cls=inp.get('cls'),
             hit_task=inp.get('task'))
