"""C10 — correspondence + monitor for the pipeline life-cycle (`dawgie.pl.state.FSM`).

Real code driven: the real `FSM` with the real `transitions.Machine` built from the real
`pl/state.dot`; `fe.submit.Process` and `fe.api.submit.Process` (`step_1`, `step_3`, `failure`),
`farm.dispatch`, `fe.api.cmd_reset`, and the completion callbacks of the captured background
steps (`load.done`, `reload.done`, `_archive` → `_archive_done`, `_navel_gaze`).

Monitor (independent of the Lean model), checked at every trigger call and after every event:
  * the state only moves along documented transitions (the property's own list AND state.dot);
  * leaving `archiving` goes back to where it was entered from;
  * a rejected trigger (exception before the state changes / no edge) changes nothing;
  * while a transition is in progress (transitioning not active, background step outstanding) every trigger whose
    transition opens a phase (before = start/save_prior_state/reset) is rejected without effect - probed after
    every event of every history;
  * `is_pipeline_active()` only at rest in `running` with no background step outstanding;
  * completing the outstanding steps (any order) brings the pipeline to rest in running/gitting;
  * "submit and back" through the real deferred chains of both endpoints with step_2 succeeding, returning FAILED or
    raising; a refused reset request changes nothing (farm.ARCHIVE, flags, priority); an accepted update with the
    REAL `_reload` / `RollbackImporter` on an AE package on disk (changesets adding imports) returns to rest;
  * idle registered workers (real farm.Hand on fake transports) are never told `wait` while the pipeline is not at
    rest in running, and the dispatch round that starts an archive leaves none registered;
  * (for C11) `_reload` never runs while the pipeline is active, and after it the pipeline is not active again
    before `FSM.load` ran (`farm.clear` observed).
"""
import itertools
import json
import os

from . import common
from .c10_world import World, LIFE, DOCUMENTED  # noqa: F401

LEAN_TARGETS = ['DawgieVerif.Model.FsmIO']

MANIFEST = dict(
    text='Lean theorems over an executable model of the life-cycle FSM whose transition table is regenerated '
         'from pl/state.dot on every run. For ALL histories and states: table_is_documented (the generated table is exactly the documented machine of the property text), moves_along_edges, rejected_no_effect, '
         'rejected_event_no_effect, active_only_at_rest, rev_change_only_inactive (+ _ends), nesting_bound_unreached. For histories in which '
         'Process.step_3 fires only in gitting (Guarded): returns_to_rest_partial with the explicit measure '
         'complete_decreases_partial, no_half_transition_partial, archive_returns_partial, active_after_reload_needs_load_partial; the negations of the '
         'four full statements are proved with concrete witnesses (returns_to_rest_fails, no_half_transition_fails, '
         'archive_returns_fails, active_after_reload_needs_load_fails) that replay on the real FSM. Histories are unbounded (induction over the event list '
         'with a state invariant); per-step facts are closed by kernel evaluation over all 672 control states. '
         'Tied to the real FSM + transitions.Machine by a correspondence run (histories from boot, every trigger and '
         'every completion from every forced control state) and an independent monitor on the real object.',
    note='Trusted: Lean kernel; propext/Classical.choice/Quot.sound only; tools/gen_c10.py (pydot reading of '
         'state.dot, FSM.states, call sites); harness fakes (deferToThread recorder, db/farm/scan stubs, '
         'reactor.callLater/spawnProcess recorder). Assumed: the transitions dispatch rule (first matching edge; '
         'before, state change, after; exceptions propagate; MachineError on an undeclared trigger); background '
         'steps complete without raising. Partial: returns-to-rest, no-half-transition and archive-and-back hold '
         'only when one submission Process is in flight at a time and step_3 runs once per Process - the code breaks '
         'both (known findings C10:legacy-double-step3, C10:submit-overlap, reproduced through the real deferred '
         'chains). Not exhibited: _archive_done running on a pool thread while the reactor fires triggers (one model '
         'step). Callback bodies are hand-modelled (fingerprinted), not translated.',
    technique='Lean 4 proof (invariant by induction over histories + exhaustive kernel-checked case analysis '
              'of the finite control state against the generated table) + differential correspondence',
    design='7/C10',
)

TRUSTED = [
    'transitions.Machine dispatch rule (first edge in table order; conditions, before, state change, after; '
    'exceptions propagate; MachineError on an undeclared trigger) - assumed by Model/Fsm.exec, sampled by the correspondence',
    'background steps (_pipeline, _reload, _archive, _navel_gaze bodies) complete without raising; their DB / scan / git '
    'work is stubbed at dawgie.db.*, farm.plow/notify_all/clear, pl.resources, RollbackImporter - except in the '
    'real-reload part, which runs the real FSM._reload and RollbackImporter on valid changesets of a synthetic AE '
    '(a changeset whose module raises when re-imported would wedge the unchanged code too: errback only logs)',
    'generated histories keep one submission Process in flight at a time and step_3 once per Process (hypothesis '
    '`Guarded` of the _partial theorems); the two scenarios that break it are run first, through the real deferred '
    'chains, and must produce exactly the known findings C10:legacy-double-step3 / C10:submit-overlap',
    '_archive_done is executed within the completion event of the archive step (shelve backend calls done() synchronously '
    'on the pool thread); pool-thread/reactor races inside that step are not exhibited',
]

STATES = ['archiving', 'contemplation', 'gitting', 'loading', 'running', 'starting', 'updating']
STATUS = ['active', 'entering', 'exiting']
STEPS = ['load', 'reload', 'archive', 'navel']
ALPHABET = ['boot', 'sb_api', 'sb_old', 'se_ok', 'se_fail', 'da', 'daH', 'fa', 'up', 'rf', 'rt', 'c0F', 'c0T', 'c1F']
MODEL_EV = {'daH': 'da', 'sr': 'sr', 'boot': 'boot', 'sb_api': 'sb', 'sb_old': 'sb', 'se_ok': 'se', 'se_fail': 'se', 'da': 'da',
            'fa': 'fa', 'up': 'up', 'rf': 'rf', 'rt': 'rt'}


def model_ev(e):
    if e.startswith('raw:'):
        return ['raw', e[4:-8]]
    if e[0] == 'c':
        return ['c', int(e[1:-1]), e[-1] == 'T']
    return MODEL_EV[e]


def apply(w, e):
    if e == 'boot':
        return w.ev_boot()
    if e in ('sb_api', 'sb_old'):
        return w.ev_submit_begin(e[3:])
    if e == 'se_ok':
        return w.ev_submit_end(True)
    if e == 'se_fail':
        return w.ev_submit_end(False)
    if e == 'da':
        return w.ev_dispatch()
    if e == 'daH':   # two idle registered workers (real farm.Hand on fake transports), then the dispatch round
        return w.ev_dispatch(hands=2)
    if e == 'fa':
        return w.ev_flag()
    if e == 'up':
        return w.ev_update()
    if e in ('rf', 'rt'):
        return w.ev_reset(e == 'rt')
    if e.startswith('raw:'):
        return w.ev_raw(e[4:])
    if e == 'sr':
        return w.ev_second_step3()
    if e in ('lgN', 'lgT', 'apN', 'apT'):
        return w.ev_chain('old' if e[:2] == 'lg' else 'api', 'now' if e[2] == 'N' else 'todo_empty')
    if e in ('apF', 'apX', 'lgF', 'lgX'):
        return w.ev_chain('old' if e[:2] == 'lg' else 'api', 'todo_empty',
                          step2='failed' if e[2] == 'F' else 'raise')
    if e == 'xlg':
        return w.ev_chain('old', 'todo_empty', allow_overlap=True)
    if e in ('pe', 'pf'):
        return w.ev_process_ended(e == 'pe')
    if e[0] == 'c':
        return w.ev_complete(int(e[1:-1]), e[-1] == 'T')
    raise ValueError(e)


def canon(o):
    return (o['state'], o['tr'], o['prior'] or 'N', o['open_again'], o['archive'], tuple(o['outstanding']),
            o['outcome'], tuple((t[:-8] if t else 'N', s, d) for t, s, d in o['moves']), o['resets'], o['active'])


def canon_model(x):
    st, tr, pr, oa, ar, outs, outcome, moves, resets, active = x
    return (st, tr, pr, oa == 'T', ar == 'T', tuple(outs), outcome, tuple(tuple(m) for m in moves), int(resets),
            active == 'T')


def run_history(w, archive0, events, res, drain_rng=None, tag='hist'):
    """returns the list of observations; reports monitor hits"""
    w.fresh(archive0, insights=len(events) % 3 != 0)   # earlier runs left metrics (farm.insights) or not
    obs = []
    for i, e in enumerate(events):
        obs.append(apply(w, e))
        if w.poisoned or w.probe_all():
            # a trigger the documented machine does not allow here was accepted: report that, stop here
            done = list(events[:i + 1]) + ([w.poison_event] if w.poison_event else [])
            report(w, res, {'kind': 'hist', 'archive0': bool(archive0), 'events': done})
            return None
    replay = {'kind': 'hist', 'archive0': bool(archive0), 'events': list(events)}
    # returns-to-rest: complete whatever is outstanding, in a chosen order
    before = w.snapshot()
    n = w.drain(drain_rng)
    if w.booted and not w.at_rest():
        w.violations.append((
            'C10:no-rest',
            f'after completing {n} outstanding step(s) from {before["state"]}/{before["tr"]}/'
            f'{list(before["outstanding"])} the pipeline is at {w.fsm.state}/{w.fsm.transitioning.name} with '
            f'{[r.kind for r in w.life()]} outstanding: not at rest in running or gitting'))
    report(w, res, replay)
    return obs


KNOWN_CAUSES = ('C10:legacy-double-step3', 'C10:submit-overlap')
# clauses that are proved for Guarded histories only (`…_partial` + `…_fails`): these alone can be consequences
# of a stray step_3; the other clauses hold for ALL histories (moves_along_edges, rejected_no_effect,
# active_only_at_rest) and are always reported under their own signature
CONSEQUENCES = ('C10:archive-origin', 'C10:no-rest', 'C10:step3-outside-gitting', 'C10:refused-submit-moved-state',
                'C10:active-without-load')


def report(w, res, replay):
    """monitor hits of one history; once a known cause (identified by what happened, not by the scenario's
    name) has occurred, what follows in the same history is its consequence"""
    cause = None
    for sig, what in w.violations:
        if cause and sig in CONSEQUENCES:
            res.hit(cause, what + f' (consequence of {cause} earlier in this history)', replay)
            continue
        if sig in KNOWN_CAUSES:
            cause = cause or sig
        res.hit(sig, what, replay)


def enabled_prune(prev_snap, snap, o):
    """an event that was refused / rejected / idle and left everything unchanged need not be extended"""
    return o['outcome'] in ('refused', 'rejected', 'idle') and prev_snap == snap


def enumerate_histories(w, res, prefix, depth, archive0, lines, pending, seen_limit=None):
    """every sequence over ALPHABET of length ≤ depth after `prefix`, skipping extensions of no-op events
    (a no-op leaves the real object exactly as it was, so the extension is the shorter sequence again)"""
    count = 0
    stack = [[]]
    while stack:
        seq = stack.pop()
        events = prefix + seq
        w.fresh(archive0, insights=len(events) % 3 != 0)
        snap = w.snapshot()
        obs = []
        noop_last = False
        for i, e in enumerate(events):
            prev = snap
            o = apply(w, e)
            snap = w.snapshot()
            obs.append(o)
            noop_last = enabled_prune(prev, snap, o)
            if w.poisoned or w.probe_all():
                done = list(events[:i + 1]) + ([w.poison_event] if w.poison_event else [])
                report(w, res, {'kind': 'hist', 'archive0': bool(archive0), 'events': done})
                break
        if w.poisoned:
            count += 1
            continue
        # drain + monitor on this history (re-run to keep `obs` of the undrained history)
        replay = {'kind': 'hist', 'archive0': bool(archive0), 'events': list(events)}
        before = w.snapshot()
        n = w.drain(None)
        if w.booted and not w.at_rest():
            w.violations.append((
                'C10:no-rest',
                f'after completing {n} outstanding step(s) from {before["state"]}/{before["tr"]}/'
                f'{list(before["outstanding"])} the pipeline is at {w.fsm.state}/{w.fsm.transitioning.name}: '
                'not at rest in running or gitting'))
        report(w, res, replay)
        count += 1
        record(res, lines, pending, archive0, events, obs, 'enum')
        if len(seq) < depth and not (seq and noop_last):
            for e in reversed(ALPHABET):
                if e == 'c1F' and len(before['outstanding']) < 2:
                    continue
                stack.append(seq + [e])
    return count


def record(res, lines, pending, archive0, events, obs, tag):
    lines.append(common.sx(['fsm', 'hist', bool(archive0)] + [model_ev(e) for e in events]))
    pending.append(('hist', {'archive0': bool(archive0), 'events': list(events)}, [canon(o) for o in obs]))
    moved = sum(len(o['moves']) for o in obs)
    res.case((archive0, tuple(events)), nontrivial=moved > 0,
             sample={'archive0': bool(archive0), 'events': list(events),
                     'states': [o['state'] + '/' + o['tr'] for o in obs]})
    res.count('hist:' + tag)
    for e, o in zip(events, obs):
        res.count('ev:' + (e if e[0] != 'c' else 'complete') + ':' + o['outcome'])


CORPUS = [
    # full boot
    (False, ['boot', 'c0F', 'c0F']),
    # archive from running and back (origin running)
    (True, ['boot', 'c0F', 'c0F', 'da', 'c0T']),
    # reset request with archive: update -> reload -> archive (origin updating) -> refresh -> load -> navel gaze
    (False, ['boot', 'c0F', 'c0F', 'rt', 'c0F', 'c0T', 'c0F', 'c0F']),
    # reset request without archive: _archive_done runs synchronously inside reload.done
    (False, ['boot', 'c0F', 'c0F', 'rf', 'c0F', 'c0F', 'c0F']),
    # submit and back, both endpoints, success and failure
    (False, ['boot', 'c0F', 'c0F', 'sb_api', 'se_ok', 'sb_old', 'se_fail']),
    # triggers while a background step is outstanding
    (True, ['boot', 'sb_api', 'da', 'up', 'c0F', 'sb_old', 'da', 'up', 'c0F', 'da', 'sb_api', 'up', 'rf', 'c0F']),
    # waiter fires while archiving / while gitting / while updating: rejected, nothing changes
    (True, ['boot', 'c0F', 'c0F', 'da', 'up', 'c0F', 'sb_api', 'up', 'se_ok', 'up', 'up', 'c0F', 'up']),
    # ARCHIVE raised while updating: the archive excursion starts from updating
    (False, ['boot', 'c0F', 'c0F', 'up', 'fa', 'c0F', 'sb_api', 'da', 'c0T', 'c0F', 'c0F']),
    # a reset with archive refused while a submission is staged, then back to running and an idle dispatch tick
    (False, ['boot', 'c0F', 'c0F', 'sb_api', 'rt', 'se_ok', 'da', 'c0F']),
    (False, ['boot', 'rt', 'c0F', 'rt', 'c0F', 'da', 'up', 'rt', 'c0F', 'c0F', 'c0F', 'da']),
    # new data, idle farm with idle registered workers (real farm.Hand): the round that starts the archive must send
    # them away; after the archive they may wait again
    (True, ['boot', 'c0F', 'c0F', 'daH', 'c0T', 'daH', 'fa', 'daH', 'da', 'c0F', 'da']),
    (False, ['boot', 'c0F', 'c0F', 'daH', 'sb_api', 'daH', 'se_ok', 'fa', 'da', 'c0T']),
    # a second load with metrics of earlier runs present (farm.insights populated by the first introspection)
    (False, ['boot', 'c0F', 'c0F', 'up', 'c0F', 'c0F', 'c0F', 'up', 'c0F', 'c0F', 'c0F', 'da']),
    # boot twice, events before boot
    (False, ['sb_api', 'da', 'up', 'rf', 'c0F', 'boot', 'boot', 'c0F', 'boot', 'c0F', 'boot']),
]


def gen_random_chain(r):
    """histories mixing the real deferred chains (step_2 ok / FAILED / raising, compliance process ending well
    or badly) with the other events; legacy successes are left to KNOWN_SCENARIOS"""
    names = ['apF', 'apX', 'lgF', 'lgX', 'apT', 'pe', 'pf', 'da', 'fa', 'up', 'rf', 'rt', 'c0F', 'c0T']
    ws = [3, 3, 3, 3, 3, 3, 2, 3, 2, 2, 1, 2, 8, 3]
    return r.random() < 0.3, ['boot', 'c0F', 'c0F'] + r.choices(names, ws, k=r.choice([4, 8, 14]))


def gen_random(r):
    n = r.choice([4, 8, 12, 16, 25])
    ev = ['boot'] if r.random() < 0.9 else []
    weights = {'boot': 1, 'sb_api': 3, 'sb_old': 3, 'se_ok': 4, 'se_fail': 3, 'da': 3, 'daH': 3, 'fa': 4, 'up': 5, 'rf': 3,
               'rt': 3, 'c0F': 12, 'c0T': 6, 'c1F': 1}
    names, ws = list(weights), list(weights.values())
    ev += r.choices(names, ws, k=n)
    return r.random() < 0.3, ev


def run_forced(w, res, lines, pending, r, thorough):
    """one trigger / one completion callback from every control state, reachable or not"""
    cores = list(itertools.product(STATES, STATUS, [None] + STATES, [False, True], [False, True]))
    triggers = sorted(n for n in w.fsm.machine.events if n.endswith('_trigger'))
    cases = [(c, ('fire', t)) for c in cores for t in triggers]
    cases += [(c, ('done', k, b)) for c in cores for k in STEPS for b in (False, True)]
    if not thorough:
        cases = r.sample(cases, 1500)
    w.fresh(False)
    for core, op in cases:
        st, tr, pr, oa, ar = core
        w.pending.clear()
        w.violations.clear()
        if op[0] == 'fire':
            w.force(*core)
            w._begin()
            w._guarded(getattr(w.fsm, op[1]))
            o = w._end('trigger', forced=True)
            line = ['fsm', 'fire', st, tr, pr, oa, ar, op[1][:-8]]
        else:
            # obtain the real thunk + callback chain of the step, then force the core
            w.force('running', 'active', None, False, True)
            w.farm.insights = {}
            w._guarded({'load': w.fsm.load, 'reload': w.fsm.reload, 'archive': w.fsm.archive,
                        'navel': w.fsm.navel_gaze}[op[1]])
            if not w.life():
                res.count('forced:done:no-step-started')   # the callback did not defer its step (changed code)
                continue
            w.force(*core)
            o = w.ev_complete(0, op[2], forced=True)
            line = ['fsm', 'done', st, tr, pr, oa, ar, op[1], op[2]]
        replay = {'kind': 'forced', 'core': list(core), 'op': list(op)}
        for sig, what in w.violations:
            res.hit(sig, what + f' (forced control state {core})', replay)
        lines.append(common.sx(line))
        pending.append(('forced', replay, canon(o)))
        res.case(('forced', core, op), nontrivial=bool(o['moves']))
        res.count('forced:' + op[0] + ':' + o['outcome'])


# scenarios of the known findings, driven through the REAL deferred chains of Process.step_0 /
# VerifyHandler.processEnded (reactor.callLater, reactor.spawnProcess and the git work of step_2 stubbed);
# no model line: the model counterpart is `Event.strayRun` (histories with `sr` below)
KNOWN_SCENARIOS = [
    # C10:legacy-double-step3 — reset-like NOW submission on /app/submit: the chain runs step_3, the life-cycle
    # goes updating -> (reload done, ARCHIVE set) archiving, then the compliance process ends -> step_3 again
    (False, ['boot', 'c0F', 'c0F', 'fa', 'lgN', 'c0F', 'pe']),
    # C10:submit-overlap — A on /api/rev/submit holds gitting, B on /app/submit is refused and kicks the
    # life-cycle back to running, A's compliance process ends -> A.step_3 raises before the crossroads
    (False, ['boot', 'c0F', 'c0F', 'apN', 'xlg', 'pe']),
]
# a second trigger arrives while the background step of the previous one is still outstanding: every transition
# that opens a phase (before = start / save_prior_state / reset) must be refused by the `transitioning` guard
PHASE_CORPUS = [
    # update accepted, reload outstanding (updating/exiting): archive and refresh must wait for reload.done
    (False, ['boot', 'c0F', 'c0F', 'up', 'raw:archiving_trigger', 'raw:loading_trigger', 'c0F', 'c0F', 'c0F']),
    (True, ['boot', 'c0F', 'c0F', 'rt', 'raw:loading_trigger', 'raw:archiving_trigger', 'c0T',
            'raw:loading_trigger', 'raw:archiving_trigger', 'raw:starting_trigger', 'c0F', 'c0F', 'c0F']),
    # the same probes while loading / introspecting / archiving from running (no such transition there)
    (True, ['boot', 'raw:starting_trigger', 'raw:loading_trigger', 'raw:archiving_trigger', 'c0F',
            'raw:archiving_trigger', 'raw:update_trigger', 'c0F', 'da', 'raw:archiving_trigger',
            'raw:loading_trigger', 'raw:gitting_trigger', 'c0F']),
]
# "submit and back" through the REAL deferred chains with step_2 failing (tools.submit.automatic returns FAILED
# or raises) on both endpoints; a refused reset followed by an idle dispatch tick.  Monitor only (chain events
# have no model line); the same events are mixed into random histories by gen_random_chain.
CHAIN_CORPUS = [
    (False, ['boot', 'c0F', 'c0F', 'apF', 'apX', 'lgF', 'lgX', 'apT', 'pf', 'apT', 'pe', 'apF']),
    (True, ['boot', 'c0F', 'c0F', 'apX', 'da', 'c0T', 'lgX', 'apF', 'rt', 'c0F', 'apF', 'c0T', 'c0F', 'c0F', 'apX']),
]
# the witnesses of Props/C10 (`strayWitness`, `originWitness`) replayed on the real FSM: `sr` is a second
# Process.step_3 on a legacy submission
STRAY_CORPUS = [
    (False, ['boot', 'c0F', 'c0F', 'sb_old', 'se_ok', 'fa', 'da', 'sr', 'up', 'c0F']),
    (False, ['boot', 'c0F', 'c0F', 'sb_old', 'se_ok', 'fa', 'up', 'c0F', 'sr']),
    (False, ['boot', 'c0F', 'c0F', 'sb_old', 'se_ok', 'rf', 'c0F', 'c0F', 'sr', 'c0F']),
]


RELOAD_CHANGESETS = {
    # name: new source of <pkg>/alpha.py (the module imported at load time); `{pkg}` is the AE package
    'unchanged': 'VERSION = 1\n',
    'value': 'VERSION = 2222\n',
    'known-import': 'import json\nVERSION = len(json.dumps([2]))\n',
    'new-import': 'import {pkg}.beta\nVERSION = 2 + len({pkg}.beta.HELPER)\n',
    'new-imports': 'import {pkg}.beta\nimport {pkg}.gamma\nVERSION = {pkg}.gamma.G + len({pkg}.beta.HELPER)\n',
    'from-import': 'from {pkg} import gamma\nVERSION = gamma.G\n',
}


def real_reload_part(w, res, only=None):
    """An accepted update_trigger with the REAL `FSM._reload` and the REAL `RollbackImporter` (installed by the
    real `FSM.start`) working on a small AE package on disk whose changeset is applied before the update:
    completing the background steps must bring the pipeline back to rest in running, and the reload step must
    not die (its errback only logs, nothing would ever move the machine again)."""
    import builtins
    import sys

    real_import = builtins.__import__
    ctx = w.ctx
    saved = (ctx.ae_base_package, ctx.ae_base_path, sys.dont_write_bytecode)
    sys.dont_write_bytecode = True
    root = os.path.join(w.tmp, 'aes')
    os.makedirs(root, exist_ok=True)
    if root not in sys.path:
        sys.path.insert(0, root)
    try:
        for k, (name, src) in enumerate(sorted(RELOAD_CHANGESETS.items())):
            if only is not None and name != only:
                continue
            real_reload_part.n = getattr(real_reload_part, 'n', 0) + 1
            pkg = f'vc10ae{os.getpid()}x{real_reload_part.n}'
            d = os.path.join(root, pkg)
            os.makedirs(d)
            for f, txt in (('__init__.py', ''), ('alpha.py', 'VERSION = 1\n'),
                           ('beta.py', 'HELPER = "new in the changeset"\n'), ('gamma.py', 'G = 7\n')):
                open(os.path.join(d, f), 'w').write(txt)
            ctx.ae_base_package, ctx.ae_base_path = pkg, d
            w.state.RollbackImporter = w.real_rollback
            try:
                fsm = w.fresh(False)
                del fsm._reload                     # the real FSM._reload

                def _pipeline(*a, pkg=pkg, **kw):   # what the real _pipeline does first: import the AE
                    exec(f'import {pkg}.alpha', {})  # noqa: S102  (a real import statement, seen by the hook)

                fsm._pipeline = _pipeline
                w.ev_boot()
                raised = []
                for _ in range(4):
                    if w.life():
                        w._begin()
                        err = w.run_rec(w.life()[0])
                        w._end('complete', err)
                        raised.append(err)
                booted = fsm.state == 'running' and fsm.is_pipeline_active()
                open(os.path.join(d, 'alpha.py'), 'w').write(src.format(pkg=pkg))
                os.utime(os.path.join(d, 'alpha.py'), (2_000_000_000 + k, 2_000_000_000 + k))
                o = w.ev_update()
                steps = []
                for _ in range(8):
                    if not w.life():
                        break
                    rec = w.life()[0]
                    w._begin()
                    err = w.run_rec(rec)
                    w._end('complete', err)
                    steps.append((rec.kind, None if err is None else f'{type(err).__name__}: {err}'))
                version = getattr(sys.modules.get(pkg + '.alpha'), 'VERSION', None)
                rep = {'kind': 'real_reload', 'changeset': name}
                if not booted or o['outcome'] != 'ok':
                    res.hit('C10:real-reload-setup', f'boot/update did not go through: {fsm.state} {o}', rep)
                elif not (w.at_rest() and fsm.is_pipeline_active()):
                    died = [s for s in steps if s[1]]
                    res.hit('C10:no-rest-after-real-reload',
                            f'update_trigger was accepted; with the real _reload / RollbackImporter and a changeset '
                            f'({name}) applied, completing the background steps {steps} leaves the pipeline at '
                            f'{fsm.state}/{fsm.transitioning.name} active={fsm.is_pipeline_active()}'
                            + (f': the {died[0][0]} step died ({died[0][1]}), its errback only logs' if died else ''),
                            rep)
                for sig, what in w.violations:
                    if sig not in KNOWN_CAUSES:
                        res.hit(sig, what + f' (real reload, changeset {name})', rep)
                res.case(('real_reload', name), nontrivial=True,
                         sample={'real_reload': name, 'steps': [s[0] for s in steps], 'VERSION': version})
                res.count(f'real-reload:{name}:' + ('rest' if w.at_rest() else 'wedged'))
            finally:
                builtins.__import__ = real_import
                w.state.RollbackImporter = w.stub_rollback
                for m in [m for m in sys.modules if m == pkg or m.startswith(pkg + '.')]:
                    del sys.modules[m]
    finally:
        ctx.ae_base_package, ctx.ae_base_path, sys.dont_write_bytecode = saved


def run(ctx, res):
    w = World()
    r = common.rng(ctx['seed'], 'C10')
    thorough = ctx['tier'] == 'thorough' or ctx['escalate']
    res.rule = ('histories of life-cycle events on the real FSM (boot, submit begin/end through the real '
                'fe.submit / fe.api.submit Process, farm.dispatch, ARCHIVE flag, waiter-style update_trigger, '
                'fe.api reset, completion of any outstanding background step); every trigger and every '
                'completion callback from every forced control state; non-trivial = the state moved; distinct by '
                'event list. thorough: every event sequence of length <= 7 after boot+load+navel gaze and <= 5 from '
                'a fresh FSM (extensions of no-op events pruned), all 672 control states x (8 triggers + 8 completions)')
    res.assumptions = list(TRUSTED)
    lines, pending = [], []
    for archive0, events in KNOWN_SCENARIOS:
        run_history(w, archive0, events, res, None)
        res.count('hist:known-finding-scenario')
    for archive0, events in CHAIN_CORPUS:
        run_history(w, archive0, events, res, None)
        res.count('hist:chain-scenario')
    for _ in range(600 if thorough else 120):
        archive0, events = gen_random_chain(r)
        run_history(w, archive0, events, res, r)
        res.count('hist:chain-random')
    real_reload_part(w, res)
    for archive0, events in PHASE_CORPUS + STRAY_CORPUS + CORPUS:
        obs = run_history(w, archive0, events, res, None)
        if obs is not None:
            record(res, lines, pending, archive0, events, obs, 'corpus')
    cdir = os.path.join(common.VERIF, 'corpus', 'C10')
    if os.path.isdir(cdir):
        for f in sorted(os.listdir(cdir)):
            c = json.load(open(os.path.join(cdir, f)))
            if c.get('kind') == 'hist':
                obs = run_history(w, c['archive0'], c['events'], res, None)
                if obs is not None:
                    record(res, lines, pending, c['archive0'], c['events'], obs, 'corpus')
    for _ in range(10000 if thorough else 700):
        archive0, events = gen_random(r)
        obs = run_history(w, archive0, events, res, r)
        if obs is not None:
            record(res, lines, pending, archive0, events, obs, 'random')
    if thorough:
        n = 0
        for a in (False, True):
            n += enumerate_histories(w, res, ['boot', 'c0F', 'c0F'], 7, a, lines, pending)
            n += enumerate_histories(w, res, [], 5, a, lines, pending)
        res.count('enumerated', n)
        res.exhaustive = True
    else:
        for a in (False, True):
            enumerate_histories(w, res, ['boot', 'c0F', 'c0F'], 4, a, lines, pending)
    run_forced(w, res, lines, pending, r, thorough)
    if ctx['lean']:
        outs = common.driver(lines, 'C10')
        for (kind, case, impl), o in zip(pending, outs):
            m = common.parse_sx(o)
            if kind == 'hist':
                model = [canon_model(x) for x in m] if isinstance(m, list) and (not m or isinstance(m[0], list)) else m
                if model != impl:
                    k = next((i for i, (a, b) in enumerate(zip(model, impl)) if a != b), min(len(model), len(impl)))
                    res.diff('Fsm.step vs real FSM (history)', dict(case, first_diverging_event=k),
                             repr(model[k:k + 1]), repr(impl[k:k + 1]))
            else:
                model = canon_model(m) if isinstance(m, list) and len(m) == 10 else m
                if model != impl:
                    res.diff('Fsm.fireTop/completion vs real FSM (forced control state)', case, repr(model), repr(impl))
        res.traces = len(pending)


def replay(rep, res):
    """re-run the recorded input; report it again only if the recorded failure (same signature) is still there"""
    tmp = common.Result()
    _replay(rep, tmp)
    want = rep.get('sig')
    for h in tmp.hits:
        if want is None or h['sig'] == want:
            res.hit(h['sig'], h['what'], h['replay'])


def _replay(rep, res):
    w = World()
    inp = rep['input']
    if inp['kind'] == 'real_reload':
        real_reload_part(w, res, only=inp['changeset'])
    elif inp['kind'] == 'hist':
        run_history(w, inp['archive0'], inp['events'], res, None)
    elif inp['kind'] == 'forced':
        core, op = inp['core'], inp['op']
        w.fresh(False)
        if op[0] == 'fire':
            w.force(*core)
            w._begin()
            w._guarded(getattr(w.fsm, op[1]))
            w._end('trigger', forced=True)
        else:
            w.force('running', 'active', None, False, True)
            w.farm.insights = {}
            w._guarded({'load': w.fsm.load, 'reload': w.fsm.reload, 'archive': w.fsm.archive,
                        'navel': w.fsm.navel_gaze}[op[1]])
            w.force(*core)
            w.ev_complete(0, op[2], forced=True)
        for sig, what in w.violations:
            res.hit(sig, what, inp)
