"""Real `dawgie.pl.state.FSM` in a controllable world (shared by the C10 and C12 harnesses).

* the real `transitions.Machine` built by `FSM.__init__` from the real `pl/state.dot`;
* `twisted.internet.threads.deferToThread` → recorder returning a real `Deferred`: the harness
  decides when each background step runs (thunk) and completes (callback chain);
* DB / scan / git / sockets stubbed at module level (`dawgie.db.*`, `farm.plow/notify_all/clear`,
  `pl.resources`, `fsm._pipeline/_reload/_security/_gui/_logging`, `RollbackImporter`);
* every trigger call (nested ones too) and every `machine.set_state` is recorded, and the
  per-trigger clauses of C10 are checked right there (`World.violations`).
"""
import logging
import os
import re
import tempfile
import types

LIFE = {'_pipeline': 'load', '_reload': 'reload', '_archive': 'archive', '_navel_gaze': 'navel'}
WAIT = {'is_crew_done': 'crew', 'is_doing_done': 'doing', 'is_todo_done': 'todo'}

# the documented machine as the property states it (source, destination):
# start, load, introspect, run; submit and back; archive and back to where it came from;
# update, archive, refresh
DOCUMENTED = {
    ('starting', 'loading'), ('loading', 'contemplation'), ('contemplation', 'running'),
    ('running', 'gitting'), ('gitting', 'running'),
    ('running', 'archiving'), ('archiving', 'running'),
    ('updating', 'archiving'), ('archiving', 'updating'),
    ('running', 'updating'), ('updating', 'loading'),
}
REST = ('running', 'gitting')


class StillWaiting(Exception):
    """raised by the fake `time.sleep` of dawgie.pl.state: one poll of a waiter loop is over"""


class Rec:
    def __init__(self, fn, args, kw, d):
        self.fn, self.args, self.kw, self.d = fn, args, kw, d
        name = getattr(fn, '__name__', '?')
        self.kind = LIFE.get(name) or WAIT.get(name) or 'other:' + name


class Sub:
    """one submission Process under observation"""

    def __init__(self, endpoint, proc):
        self.endpoint, self.proc = endpoint, proc
        self.passed_step1 = False   # its own step_1 fired gitting_trigger
        self.step3_calls = 0
        self.kicked = False         # another Process's failure handler left `gitting` while this one held it
        self.handler = None         # VerifyHandler given to reactor.spawnProcess
        self.over = False
        self.cleared = 0            # calls of the `clear` callback (Defer.__busy released)
        self.request = None


class FakeRequest:
    def __init__(self):
        self.written, self.finished = [], 0
        self.finish_exc = None      # what finish() raises: Twisted raises RuntimeError once the connection is lost

    def write(self, b):
        self.written.append(b)

    def finish(self):
        self.finished += 1
        if self.finish_exc is not None:
            raise self.finish_exc


def parse_dot(path, before=None):
    """independent reading of pl/state.dot: {(trigger, source): [dest, ...]} in file order;
    `before` (a dict) receives {(trigger, source): before-callback of the first such edge}"""
    txt = re.sub(r'/\*.*?\*/', '', open(path).read(), flags=re.S)
    table = {}
    for m in re.finditer(r'(\w+)\s*->\s*(\w+)\s*\[(.*?)\]', txt, flags=re.S):
        attrs = dict(re.findall(r'(\w+)\s*=\s*("(?:[^"\\]|\\.)*"|[^,\]\s]+)', m.group(3)))
        if 'trigger' in attrs:
            key = (attrs['trigger'], attrs.get('source'))
            if before is not None and key not in table:
                before[key] = attrs.get('before')
            table.setdefault(key, []).append(attrs.get('dest'))
    return table


class World:
    def __init__(self):
        logging.disable(logging.CRITICAL)
        import dawgie.context
        import dawgie.db
        import dawgie.fe.api
        import dawgie.fe.api.submit
        import dawgie.fe.submit
        import dawgie.pl.farm as farm
        import dawgie.pl.resources
        import dawgie.pl.schedule as schedule
        import dawgie.pl.state as state
        import dawgie.tools.submit
        import pydot
        import twisted.internet.defer
        import twisted.internet.threads
        import twisted.python.failure

        self.ctx, self.db, self.farm, self.schedule, self.state = dawgie.context, dawgie.db, farm, schedule, state
        self.submit_old, self.submit_api, self.api = dawgie.fe.submit, dawgie.fe.api.submit, dawgie.fe.api
        self.Failure = twisted.python.failure.Failure
        self.Deferred = twisted.internet.defer.Deferred
        self.tmp = tempfile.mkdtemp(prefix='verif-fsm-')
        import atexit
        import shutil
        atexit.register(shutil.rmtree, self.tmp, ignore_errors=True)   # scratch only; nothing is read back later
        os.makedirs(os.path.join(self.tmp, 'ae', '.git'))
        dawgie.context.fe_path = self.tmp
        dawgie.context.ae_base_path = os.path.join(self.tmp, 'ae')
        dawgie.context.email_alerts_to = ''
        self.pending = []
        self.reopen_answer = False
        self.db_calls = []

        self.eager = False   # schedule in which a new poller thread runs its first loop test at once

        def defer_to_thread(fn, *a, **k):
            d = self.Deferred()
            rec = Rec(fn, a, k, d)
            self.pending.append(rec)
            if self.eager and rec.kind in WAIT.values():
                # the new thread wins the race: it runs until it ends or reaches its first time.sleep BEFORE
                # deferToThread returns to the statements that follow in wait_for_*; its result is delivered to
                # the reactor afterwards (deliver_finished)
                try:
                    rec.result = fn(*a, **k)
                    rec.finished = True
                except StillWaiting:
                    pass
                except Exception as e:  # pylint: disable=broad-except
                    rec.error = e
                    rec.finished = True
            return d

        twisted.internet.threads.deferToThread = defer_to_thread
        dawgie.db.reopen = lambda: (self.db_calls.append('reopen'), self.reopen_answer)[1]
        dawgie.db.close = lambda: self.db_calls.append('close')
        dawgie.db.open = lambda: self.db_calls.append('open')
        dawgie.db.archive = lambda done: (self.db_calls.append('archive'), done())[1]
        dawgie.db.metrics = lambda *a, **k: []
        self.insights = True   # what the introspection finds: metrics of earlier runs (non-empty) or nothing
        dawgie.pl.resources.distribution = lambda m: ({'task.alg': {'cpu': 1.0}} if self.insights else {})
        dawgie.pl.resources.last_runid = lambda: 0
        farm.plow = lambda: None
        # farm.notify_all stays REAL (it tells the registered hands whether the pipeline is active);
        # farm.clear is the real one plus the observation that FSM.load ran
        real_clear = farm.clear
        farm.clear = lambda: (real_clear(), self._on_farm_clear())[1]
        import dawgie.pl.message as message
        self.message = message
        real_send = message.send
        self.sent = []

        def send(m, s):
            self._on_send(m)
            return real_send(m, s)

        message.send = send
        schedule.next_job_batch = lambda: []
        schedule.promote = types.SimpleNamespace(more=lambda: False)
        dawgie.tools.submit.already_applied = lambda cs, repo: False
        dawgie.tools.submit.mail_out = lambda *a, **k: None
        self.real_rollback = state.RollbackImporter     # used by the real-reload part only
        self.stub_rollback = lambda: types.SimpleNamespace(reload=lambda: None)
        state.RollbackImporter = self.stub_rollback
        dawgie.context._rev = lambda: 'deadbeef'
        # the deferred chains of Process.step_0 and VerifyHandler: reactor.callLater / spawnProcess recorded
        import twisted.internet.error
        import twisted.internet.reactor as reactor
        self.tw_error = twisted.internet.error
        self.later, self.spawned = [], []
        reactor.callLater = lambda delay, fn, *a, **k: self.later.append((fn, a, k))
        reactor.spawnProcess = lambda proto, *a, **k: self.spawned.append(proto)

        self.automatic_mode = 'ok'

        def automatic(**kw):   # the git work of step_2: succeeds and spawns the compliance process, or fails
            if self.automatic_mode == 'failed':
                return dawgie.tools.submit.State.FAILED
            if self.automatic_mode == 'raise':
                raise RuntimeError('git checkout failed')
            kw['spawn'](['python', '-m', 'dawgie.tools.compliant'])
            return dawgie.tools.submit.State.SUCCESS

        dawgie.tools.submit.automatic = automatic
        # one fully real construction (pydot parse + `dot` writing state.svg), then cache the parsed
        # graph and skip the svg: FSM.__init__ still builds the machine from the graph's edges
        self.dot_path = os.path.join(os.path.dirname(state.__file__), 'state.dot')
        state.FSM()
        real_parse = pydot.graph_from_dot_file
        cache = {}

        def parse_once(path, *a, **k):
            if path not in cache:
                cache[path] = real_parse(path, *a, **k)
            return cache[path]

        state.pydot = types.SimpleNamespace(graph_from_dot_file=parse_once)
        pydot.Dot.write_svg = lambda self_, fn, **k: True
        self.before = {}
        self.table = parse_dot(self.dot_path, self.before)
        self.fsm = None
        self.fresh()

    # ------------------------------------------------------------------ construction
    def fresh(self, archive0=False, insights=True):
        self.insights = bool(insights)
        st, farm = self.state, self.farm
        self.pending.clear()
        self.db_calls.clear()
        for lst in (farm._jobs, farm._busy, farm._cluster, farm._cloud, farm._reject, farm._repeat,
                    farm._workers, self.schedule.que):
            lst.clear()
        farm.ARCHIVE = bool(archive0)
        farm.insights = {}
        self.sent.clear()
        fsm = st.FSM()
        self.ctx.fsm = fsm

        def _pipeline(*a, **k):
            return None

        def _reload(*a, **k):
            # the body of the reload step is where context.git_rev changes (C11 relies on: never while active)
            if fsm.is_pipeline_active() and not self.forced_mode:
                self.violations.append((
                    'C10:reload-while-active',
                    f'_reload (git_rev changes) runs while is_pipeline_active() is true (state {fsm.state})'))
            return None

        fsm._pipeline, fsm._reload = _pipeline, _reload
        fsm._security = fsm._gui = fsm._logging = lambda *a, **k: None
        self.fsm = fsm
        self.calls, self.moves, self.stack, self.violations = [], [], [], []
        self.resets = 0
        self.subs = []
        self.later.clear()
        self.spawned.clear()
        self.ctx_ev = None
        self.booted = False
        self.poisoned = False       # a probe was wrongly accepted: the object is off the documented machine
        self.poison_event = None
        self.forced_mode = False    # control state set by hand (unreachable states): reachability clauses off
        self.need_load = False      # a reload step completed and FSM.load has not run since
        self.arch_origin = None
        self.last_seen_state = fsm.state
        real_set_state = fsm.machine.set_state

        def set_state(state, model=None):
            src = fsm.state
            real_set_state(state, model)
            dst = fsm.state
            trig = self.stack[-1]['trigger'] if self.stack else None
            self.moves.append((trig, src, dst))
            self._check_move(trig, src, dst)

        fsm.machine.set_state = set_state
        for name in [n for n in fsm.machine.events if n.endswith('_trigger')]:
            self._wrap_trigger(name)
        real_reset = fsm.reset

        def reset():
            real_reset()
            self.resets += 1

        fsm.reset = reset
        self.history = []
        self.archive0 = bool(archive0)
        return fsm

    def _wrap_trigger(self, name):
        fsm = self.fsm
        orig = getattr(fsm, name)

        def trigger(*a, **k):
            snap = self.snapshot()
            call = {'trigger': name, 'from': fsm.state, 'depth': len(self.stack), 'raised': None,
                    'moves0': len(self.moves)}
            self.calls.append(call)
            self.stack.append(call)
            if self.trigger_hook:
                self.trigger_hook(call)
            try:
                return orig(*a, **k)
            except BaseException as e:  # pylint: disable=broad-except
                call['raised'] = type(e).__name__
                raise
            finally:
                self.stack.pop()
                call['moved'] = len(self.moves) - call['moves0']
                known = (name, call['from']) in self.table
                if call['moved'] == 0 and (call['raised'] or not known):
                    after = self.snapshot()
                    if after != snap:
                        self.violations.append((
                            'C10:rejected-with-effect',
                            f"{name} from {call['from']} was rejected ({call['raised']}) but changed "
                            f"{ {k: (snap[k], after[k]) for k in snap if snap[k] != after[k]} }"))

        setattr(fsm, name, trigger)

    # ------------------------------------------------------------------ observation
    def life(self):
        return [r for r in self.pending if r.kind in LIFE.values()]

    def snapshot(self):
        f = self.fsm
        return {
            'state': f.state, 'tr': f.transitioning.name, 'prior': f._FSM__prior,
            'open_again': bool(f.open_again), 'archive': bool(self.farm.ARCHIVE),
            'outstanding': tuple(r.kind for r in self.pending),
            'flags': (f.wait_on_crew.is_set(), f.wait_on_doing.is_set(), f.wait_on_todo.is_set()),
            'priority': getattr(f.priority, 'name', None),
            'slots': (f.crew_thread is not None, f.doing_thread is not None, f.todo_thread is not None),
        }

    def _on_send(self, m):
        """a `wait` message is the farm declaring the pipeline active to an idle worker"""
        f = self.fsm
        if f is None:
            return
        rest = f.state == 'running' and f.transitioning.name == 'active' and not self.life()
        self.sent.append((m.type.name, rest))
        if m.type == self.message.Type.wait and not rest and not self.forced_mode:
            self.violations.append((
                'C10:worker-told-active-while-inactive',
                f'the farm sent `wait` (pipeline active, stay registered) to an idle worker while the life-cycle is '
                f'{f.state}/{f.transitioning.name} with {[r.kind for r in self.life()]} outstanding'))

    def add_hand(self):
        """an idle, registered worker: a real farm.Hand on a fake transport"""
        import collections

        hand = self.farm.Hand(collections.namedtuple('IPV4', ['host', 'port'])('localhost', 600 + len(self.farm._workers)))
        hand.transport = types.SimpleNamespace(written=[], lost=0)
        hand.transport.write = hand.transport.written.append
        hand.transport.loseConnection = lambda t=hand.transport: setattr(t, 'lost', t.lost + 1)
        self.farm._workers.append(hand)
        return hand

    def _on_farm_clear(self):
        # FSM.load: farm.notify_all(); farm.clear() before deferring _pipeline
        self.need_load = False

    cause_override = None
    trigger_hook = None   # C12: called with the call record just before a trigger runs

    def _check_move(self, trig, src, dst):
        if src == dst:
            return
        if dst not in self.table.get((trig, src), []) or (src, dst) not in DOCUMENTED:
            self.violations.append((
                'C10:undocumented-move',
                f'state moved {src} -> {dst} on {trig}: not a documented transition'))
        if dst == 'archiving':
            self.arch_origin = src
        elif src == 'archiving':
            if self.arch_origin is not None and dst != self.arch_origin:
                self.violations.append((
                    self.cause_override or 'C10:archive-origin',
                    f'left archiving to {dst} but it was entered from {self.arch_origin}'))
            self.arch_origin = None

    def check_after_event(self, forced=False):
        """clauses checked at event boundaries"""
        f = self.fsm
        if f.state != self.last_seen_state:
            chain = [m for m in self.moves[self._mark_moves:]]
            cur = self.last_seen_state
            for _t, s, d in chain:
                if s != cur:
                    break
                cur = d
            else:
                if cur == f.state:
                    chain = None
            if chain is not None:
                self.violations.append((
                    'C10:state-changed-outside-trigger',
                    f'state went {self.last_seen_state} -> {f.state} without a matching chain of transitions'))
        self.last_seen_state = f.state
        if not forced and self.need_load and f.is_pipeline_active():
            self.violations.append((
                'C10:active-without-load',
                'the pipeline is active again after a reload step completed (git_rev changed) although FSM.load '
                '(farm.notify_all, farm.clear) has not run since'))
            self.need_load = False
        if not forced and f.is_pipeline_active():
            if f.state != 'running' or f.transitioning.name != 'active' or self.life():
                self.violations.append((
                    'C10:active-not-at-rest',
                    f'is_pipeline_active() while state={f.state} transitioning={f.transitioning.name} '
                    f'outstanding={[r.kind for r in self.life()]}'))

    def at_rest(self):
        f = self.fsm
        return not self.life() and f.state in REST and f.transitioning.name == 'active'

    # ------------------------------------------------------------------ events
    def _begin(self):
        self._mark_calls, self._mark_moves, self._mark_resets = len(self.calls), len(self.moves), self.resets

    def _end(self, kind, raised=None, forced=False):
        calls = [c for c in self.calls[self._mark_calls:] if c['depth'] == 0]
        moved = len(self.moves) - self._mark_moves
        if kind == 'trigger':
            if not calls:
                out = 'refused'
            elif calls[0]['raised'] is None:
                out = 'ok'
            else:
                out = 'rejected' if calls[0]['moved'] == 0 else 'failed'
            if calls and calls[0]['trigger'] == 'starting_trigger' and calls[0]['raised'] is None:
                self.booted = True
        elif kind == 'complete':
            out = 'ok' if raised is None else ('rejected' if moved == 0 else 'failed')
        else:
            out = 'idle'
        self.check_after_event(forced)
        s = self.snapshot()
        return {
            'state': s['state'], 'tr': s['tr'], 'prior': s['prior'], 'open_again': s['open_again'],
            'archive': s['archive'], 'outstanding': [r.kind for r in self.life()], 'outcome': out,
            'moves': [list(m) for m in self.moves[self._mark_moves:]],
            'resets': self.resets - self._mark_resets,
            'active': bool(self.fsm.is_pipeline_active()),
        }

    def _guarded(self, fn):
        """run a piece of real code the way the reactor would: an exception ends the event"""
        try:
            fn()
            return None
        except StillWaiting:
            raise
        except Exception as e:  # pylint: disable=broad-except
            return e

    def ev_boot(self):
        self._begin()
        self._guarded(self.fsm.starting_trigger)  # pl/__main__.py Start.run
        return self._end('trigger')

    # -------------------------------------------------------------- submissions
    @property
    def proc(self):
        live = [x for x in self.subs if not x.over and x.passed_step1]
        return live[0] if live else None

    def _new_sub(self, which, changeset, submission):
        mod = self.submit_api if which == 'api' else self.submit_old
        request = FakeRequest()
        box = []
        sub = Sub(which, mod.Process(changeset, lambda: box and setattr(box[0], 'cleared', box[0].cleared + 1),
                                     request, submission))
        box.append(sub)
        sub.request = request
        real3, real1, realf = sub.proc.step_3, sub.proc.step_1, sub.proc.failure
        fsm = self.fsm

        def step_1(result):
            before = fsm.state
            r = real1(result)
            if not isinstance(r, self.Failure) and fsm.state == 'gitting' and before != 'gitting':
                sub.passed_step1 = True
            sub.refused = isinstance(r, self.Failure)
            return r

        def failure(fail):
            before = fsm.state
            holder = self.proc
            try:
                return realf(fail)
            finally:
                sub.over = True
                if not sub.passed_step1 and fsm.state != before:
                    # clause: a refused submission does not touch the life-cycle
                    cause = (holder is not None and holder is not sub and holder.endpoint != sub.endpoint
                             and before == 'gitting' and fsm.state == 'running')
                    if cause:
                        holder.kicked = True
                    self.violations.append((
                        'C10:submit-overlap' if cause else 'C10:refused-submit-moved-state',
                        f'a submission on the {sub.endpoint} endpoint was refused at step_1 but its failure '
                        f'handler moved the life-cycle {before} -> {fsm.state}'
                        + (f' while the submission on the {holder.endpoint} endpoint held gitting' if cause else '')))

        def step_3(result):
            failed = sub.proc.__dict__.get('_Process__failed', False)
            if not failed:
                sub.step3_calls += 1
                if fsm.state != 'gitting':
                    # clause "submit and back": step_3 brings the life-cycle back from gitting
                    if sub.endpoint == 'old' and sub.step3_calls == 2:
                        sig = 'C10:legacy-double-step3'
                    elif sub.kicked:
                        sig = 'C10:submit-overlap'
                    else:
                        sig = 'C10:step3-outside-gitting'
                    self.violations.append((
                        sig, f'step_3 (call {sub.step3_calls}) of the submission on the {sub.endpoint} endpoint fires '
                             f'running_trigger while the life-cycle is in {fsm.state}/{fsm.transitioning.name}, not gitting'))
                    self.cause_override = sig if sig != 'C10:step3-outside-gitting' else None
            try:
                return real3(result)
            finally:
                self.cause_override = None
                if not failed:
                    sub.over = True

        sub.proc.step_1, sub.proc.failure, sub.proc.step_3 = step_1, failure, step_3
        self.subs.append(sub)
        return sub

    def _busy(self, which, allow_overlap):
        """Defer.__busy of the endpoint; across endpoints only when the scenario asks for the overlap"""
        live = [x for x in self.subs if not x.over]
        if any(x.endpoint == which for x in live):
            return True
        return bool(live) and not allow_overlap

    def ev_submit_begin(self, which='api', changeset='abc123', submission='todo_empty', allow_overlap=False):
        """Process.step_1 called directly (and the errback `failure` when it refuses)"""
        self._begin()
        if self._busy(which, allow_overlap):
            return self._end('trigger')

        def go():
            sub = self._new_sub(which, changeset, submission)
            try:
                r = sub.proc.step_1(None)
            except Exception:  # pylint: disable=broad-except
                r = self.Failure()   # an exception in step_1 reaches the same errback
            if isinstance(r, self.Failure):
                sub.proc.failure(r)  # the errback installed by step_0

        self._guarded(go)
        return self._end('trigger')

    def ev_submit_end(self, ok=True):
        sub = self.proc
        self._begin()
        if sub is not None:
            if ok:
                self._guarded(lambda: sub.proc.step_3(None))
            else:
                self._guarded(lambda: sub.proc.failure(self.Failure(Exception('step_2 failed'))))
        return self._end('trigger')

    def ev_second_step3(self):
        """Process.step_3 called again on the latest legacy submission that already ran it (what
        VerifyHandler.processEnded does after the deferred chain of fe/submit.py already did)"""
        self._begin()
        subs = [x for x in self.subs if x.endpoint == 'old' and x.step3_calls >= 1]
        if subs:
            self._guarded(lambda: subs[-1].proc.step_3(None))
        return self._end('trigger')

    def _run_later(self):
        err = None
        while self.later:
            fn, a, k = self.later.pop(0)
            err = self._guarded(lambda: fn(*a, **k)) or err
            d = getattr(fn, '__self__', None)
            if isinstance(d, self.Deferred) and isinstance(getattr(d, 'result', None), self.Failure):
                err = err or d.result.value   # nobody handles it in the real chain either (logged at GC)
                d.addErrback(lambda f: None)
        return err

    def ev_chain(self, which, submission='todo_empty', changeset='abc123', allow_overlap=False, step2='ok'):
        """the real deferred chain of Process.step_0 (step_1, step_2 with git stubbed - succeeding, returning
        FAILED or raising - and for the legacy endpoint step_3) run as one reactor turn"""
        self._begin()
        if self._busy(which, allow_overlap):
            return self._end('trigger')
        sub = self._new_sub(which, changeset, submission)
        n = len(self.spawned)
        self.automatic_mode = step2
        try:
            self._guarded(sub.proc.step_0)
            self._run_later()
        finally:
            self.automatic_mode = 'ok'
        if len(self.spawned) > n:
            sub.handler = self.spawned[-1]
        o = self._end('trigger')
        if sub.passed_step1 and not sub.over and sub.handler is None and not self.later \
                and self.fsm.state == 'gitting':
            # "submit and back": nothing is left that could ever call step_3 or failure for this submission
            self.violations.append((
                'C10:submit-not-back',
                f'the submission on the {sub.endpoint} endpoint entered gitting, its step_2 '
                f'{"returned FAILED" if step2 == "failed" else "raised" if step2 == "raise" else "ended"} and the '
                f'deferred chain is over, but nobody fired running_trigger: the life-cycle stays in gitting '
                f'(request answered: {bool(sub.proc.__dict__.get("_Process__request") is None)})'))
            sub.over = True
        return o

    def ev_process_ended(self, ok=True):
        """the compliance process of the oldest submission with a VerifyHandler ends"""
        self._begin()
        subs = [x for x in self.subs if x.handler is not None]
        if subs:
            sub = subs[0]
            handler, sub.handler = sub.handler, None
            reason = self.Failure(self.tw_error.ProcessDone(0) if ok else self.tw_error.ProcessTerminated(1))
            self._guarded(lambda: handler.processEnded(reason))
            self._run_later()
        return self._end('trigger')

    def ev_dispatch(self, hands=0):
        for _ in range(hands):
            self.add_hand()
        self._begin()
        err = self._guarded(self.farm.dispatch)
        o = self._end('trigger')
        if err is not None:
            self.violations.append(('C10:dispatch-raised', f'farm.dispatch raised {type(err).__name__}: {err}'))
        if o['moves'] and not self.fsm.is_pipeline_active() and self.farm._workers:
            self.violations.append((
                'C10:workers-kept-while-inactive',
                f'the dispatch round that fired {o["moves"][0][0]} ended with the life-cycle at {o["state"]}/{o["tr"]} and '
                f'{len(self.farm._workers)} idle worker(s) still registered as available'))
        return o

    def ev_flag(self):
        self._begin()
        self.farm.ARCHIVE = True
        return self._end('flag')

    def ev_update(self):
        """what a waiter's `done` callback does when it is still the active wait"""
        self._begin()
        self._guarded(self.fsm.update_trigger)
        return self._end('trigger')

    # -------------------------------------------------------------- probes: a new transition during a transition
    def phase_guarded(self, name):
        """The documented machine refuses a new transition until the current one has finished entering /
        exiting: every transition whose `before` callback opens a phase (start, save_prior_state, reset begin
        with `transitioning = entering/exiting`, which is only allowed from `active`) is NOT allowed while
        `transitioning` is not active.  Read off state.dot and the setter's contract, not off the Lean model."""
        f = self.fsm
        return f.transitioning.name != 'active' and bool(self.before.get((name, f.state)))

    def ev_raw(self, name):
        """fire a trigger from outside with no call-site guard"""
        f = self.fsm
        snap = self.snapshot()
        src = f.state
        must_reject = self.phase_guarded(name) or (name, src) not in self.table
        why = 'a background step of the transition in progress is outstanding' if (name, src) in self.table \
            else 'no such transition'
        self._begin()
        err = self._guarded(getattr(f, name))
        o = self._end('trigger')
        if must_reject and (err is None or self.snapshot() != snap):
            after = self.snapshot()
            self.violations.append((
                'C10:accepted-during-transition' if (name, src) in self.table else 'C10:accepted-without-edge',
                f'{name} in {src}/{snap["tr"]} with {list(snap["outstanding"])} outstanding ({why}) was '
                + ('accepted' if err is None else f'rejected ({type(err).__name__}) with side effects')
                + f': { {k: (snap[k], after[k]) for k in snap if snap[k] != after[k]} }'))
            self.poisoned = True
        return o

    def probe_all(self):
        """in a state that is in the middle of a transition, every trigger the documented machine does not
        allow there must be rejected without side effects; returns True when one was not"""
        f = self.fsm
        if f.transitioning.name == 'active' or self.forced_mode:
            return False
        for name in sorted(n for n in f.machine.events if n.endswith('_trigger')):
            if self.phase_guarded(name):
                self.ev_raw(name)
                if self.poisoned:
                    self.poison_event = 'raw:' + name
                    return True
        return False

    def ev_reset(self, archive):
        snap = self.snapshot()
        self._begin()
        self._guarded(lambda: self.api.cmd_reset(['true' if archive else 'false']))
        o = self._end('trigger')
        if o['outcome'] == 'refused' and self.snapshot() != snap:
            after = self.snapshot()
            self.violations.append((
                'C10:refused-reset-had-effect',
                f'the reset request (archive={bool(archive)}) was refused in {snap["state"]}/{snap["tr"]} (no trigger '
                f'fired) but changed { {k: (snap[k], after[k]) for k in snap if snap[k] != after[k]} }'))
        return o

    def deliver_finished(self):
        """fire the Deferreds of the pollers that already ended (eager schedule); returns their kinds"""
        kinds = []
        for rec in [r for r in self.pending if getattr(r, 'finished', False)]:
            self.pending.remove(rec)
            kinds.append(rec.kind)
            if getattr(rec, 'error', None) is not None:
                rec.d.errback(self.Failure(rec.error))
            else:
                rec.d.callback(rec.result)
            if isinstance(getattr(rec.d, 'result', None), self.Failure):
                rec.d.addErrback(lambda f: None)
        return kinds

    def run_rec(self, rec, reopen=False):
        """run the captured thunk, then fire the Deferred the way deferToThread would"""
        self.pending.remove(rec)
        self.reopen_answer = bool(reopen)
        raised = None
        try:
            result = rec.fn(*rec.args, **rec.kw)
        except StillWaiting:
            self.pending.append(rec)
            raise
        except Exception as e:  # pylint: disable=broad-except
            raised = e
            rec.d.errback(self.Failure())
        else:
            if rec.kind == 'reload':
                self.need_load = True
            rec.d.callback(result)
        res = getattr(rec.d, 'result', None)
        if isinstance(res, self.Failure):
            raised = raised or res.value
            rec.d.addErrback(lambda f: None)
        return raised

    def ev_complete(self, i=0, reopen=False, forced=False):
        self._begin()
        life = self.life()
        if i >= len(life):
            return self._end('idle', forced=forced)
        raised = self.run_rec(life[i], reopen)
        return self._end('complete', raised, forced=forced)

    # ------------------------------------------------------------------ forced cores (unreachable states too)
    def force(self, state, tr, prior, open_again, archive):
        f = self.fsm
        setattr(f, 'state', state)
        f._FSM__transitioning = self.state.Status[tr]
        f._FSM__prior = prior
        f.open_again = bool(open_again)
        self.farm.ARCHIVE = bool(archive)
        self.last_seen_state = state
        self.arch_origin = None
        self.forced_mode = True
        self.need_load = False

    def drain(self, order_rng=None, limit=12):
        """complete outstanding life-cycle steps until none is left; returns the number completed"""
        n = 0
        while self.life() and n < limit:
            life = self.life()
            i = order_rng.randrange(len(life)) if order_rng else 0
            self.ev_complete(i, bool(order_rng and order_rng.random() < 0.5))
            n += 1
        return n
