"""C16 support: abstract engine descriptors, their realisation as REAL algorithm-engine packages
on disk, and the runs of the real gate (`tools.compliant._scan/_verify`) and of the real
`pl.scan.for_factories` + `dag.Construct` + `schedule.build/periodics` on them.

Descriptor (json-able, every field has a default filled in by `norm_engine`):

  engine  = {'tasks': [task, ...], 'style': 'old'|'base'|'auto'}
            old : bots derive from the deprecated dawgie.Task/Analysis/Regress, factories are written out
            base: factories are written out and return dawgie.base.Task/Analysis/Regress
            auto: the module only defines Algorithm/Analyzer/Regression classes (events as their
                  DAWGIE_SCHEDULE); `pl.scan` synthesises the factories (dawgie.base.Factories)
  task    = {'name': str, 'factories': {kind: factory}}          kind in analysis|events|regress|task
  factory = {'params': [[name, dflt, ann], ...], 'raises': bool, 'bot': bot}      (events: 'events': [event])
            dflt: None (no default) | ['i', int] | ['s', str] | ['o'] (some other value)
            ann : 'str' | 'int' | None (no annotation) | 'other'
  bot     = {'base': bool, 'list': bool, 'fwd': bool, 'routines': [routine, ...]}
  routine = {'name': str, 'name_impl': bool, 'base': bool, 'ver': bool, 'run': bool,
             'deps_impl': bool, 'deps_list': bool, 'svs_impl': bool, 'svs_list': bool,
             'deps': [ref], 'feedback': [ref], 'svs': [sv]}
  sv      = {'name': str, 'name_impl': bool, 'base': bool, 'ver': bool, 'values': [value]}
  value   = {'key': str, 'base': bool, 'ver': bool, 'pickle': 'ok'|'dumps'|'loads'}
  ref     = {'kind': 'alg'|'sv'|'v', 'reftype': bool, 'to': [task, kind, ri, si, vi],
             'factory': 'func'|'callable', 'impl': 'real'|'ghost'|'duck'|'twin:<task>',
             'item': 'real'|'ghost'|'ghost_empty'|'duck', 'feat': 'real'|'missing'|'int'}
  event   = {'isevent': bool, 'via': 'schedule'|'direct', 'to': [kind, ri],
             'moment': {'boot': 'N'|'T'|'F', 'day'|'dom'|'dow'|'time': 'N'|'ok'|'bad'}}

`flags_of_task` derives from the descriptor the abstract package `Pkg` of the Lean model
(lean/DawgieVerif/Model/Compliant.lean) as an s-expression.  The descriptor<->package relation
(Python import, inspect.signature, pickle, isinstance) is what this file implements; it is
modelled, not verified."""
import contextlib
import copy
import io
import logging
import os
import re
import shutil
import sys
import tempfile
import types
import warnings

from . import common

KINDS = ('analysis', 'regress', 'task')
ALLKINDS = ('analysis', 'events', 'regress', 'task')
ROUT_BASE = {'task': 'Algorithm', 'analysis': 'Analyzer', 'regress': 'Regression'}
DEPS = {'task': 'previous', 'analysis': 'traits', 'regress': 'variables'}
BOT_BASE = {'task': 'Task', 'analysis': 'Analysis', 'regress': 'Regress'}
BOT_ARGS = {'task': ['prefix', 'ps_hint', 'runid', 'target'],
            'analysis': ['prefix', 'ps_hint', 'runid'],
            'regress': ['prefix', 'ps_hint', 'target']}
BOT_DEFAULT = {'prefix': None, 'ps_hint': '0', 'runid': '-1', 'target': "'__none__'"}


def good_params(kind):
    return {
        'analysis': [['prefix', None, 'str'], ['ps_hint', ['i', 0], 'int'], ['runid', ['i', -1], 'int']],
        'regress': [['prefix', None, 'str'], ['ps_hint', ['i', 0], 'int'],
                    ['target', ['s', '__none__'], 'str']],
        'task': [['prefix', None, 'str'], ['ps_hint', ['i', 0], 'int'], ['runid', ['i', -1], 'int'],
                 ['target', ['s', '__none__'], 'str']],
        'events': [],
    }[kind]


# ------------------------------------------------------------------ constructors with defaults
def mk_value(key, **kw):
    return dict({'key': key, 'base': True, 'ver': True, 'pickle': 'ok'}, **kw)


def mk_sv(name, keys=('k0',), **kw):
    return dict({'name': name, 'name_impl': True, 'base': True, 'ver': True,
                 'values': [mk_value(k) if isinstance(k, str) else k for k in keys]}, **kw)


def mk_routine(name, svs=None, deps=(), feedback=(), **kw):
    return dict({'name': name, 'name_impl': True, 'base': True, 'ver': True, 'run': True,
                 'deps_impl': True, 'deps_list': True, 'svs_impl': True, 'svs_list': True,
                 'deps': list(deps), 'feedback': list(feedback),
                 'svs': [mk_sv('sv0')] if svs is None else list(svs)}, **kw)


def mk_bot(routines, **kw):
    return dict({'base': True, 'list': True, 'fwd': True, 'routines': list(routines)}, **kw)


def mk_factory(kind, content, **kw):
    d = {'params': good_params(kind), 'raises': False}
    d['events' if kind == 'events' else 'bot'] = content
    d.update(kw)
    return d


def mk_ref(kind, to, **kw):
    return dict({'kind': kind, 'reftype': True, 'to': list(to), 'factory': 'func', 'impl': 'real',
                 'item': 'real', 'feat': 'real'}, **kw)


def mk_event(to, moment=None, **kw):
    m = {'boot': 'N', 'day': 'N', 'dom': 'N', 'dow': 'N', 'time': 'N'}
    m.update(moment or {'boot': 'T'})
    return dict({'isevent': True, 'via': 'schedule', 'to': list(to), 'moment': m}, **kw)


def mk_task(name, factories):
    return {'name': name, 'factories': factories}


def mk_engine(tasks, style='old', layout='flat'):
    return {'tasks': list(tasks), 'style': style, 'layout': layout}


def task_of(eng, name):
    for t in eng['tasks']:
        if t['name'] == name:
            return t
    raise KeyError(name)


# ------------------------------------------------------------------ source generation
PRELUDE_HEAD = '''"""generated by /verif/harness/c16_pkg.py"""
import collections
import datetime
import importlib

import dawgie
import dawgie.base

ROOT = %(root)r
TASK = %(task)r
SUB = %(sub)r  # '' when classes and factories share the package module, '.bot' when split
X_ALG = collections.namedtuple('ALG_REF', ['factory', 'impl'])
X_SV = collections.namedtuple('SV_REF', ['factory', 'impl', 'item'])
X_V = collections.namedtuple('V_REF', ['factory', 'impl', 'item', 'feat'])
X_EVENT = collections.namedtuple('EVENT', ['algref', 'moment'])
GOODVER = dawgie.VERSION(1, 0, 0)
BADVER = (1, 0, 0)


def _m(task):
    """the package module of a task: its factories"""
    return importlib.import_module(ROOT + '.' + task)


def _c(task):
    """the module holding a task's classes"""
    return importlib.import_module(ROOT + '.' + task + SUB)


def _b():
    return _c(TASK)


def _unpicklable():
    return lambda: 0


'''

PRELUDE_CLASSES = '''
class DuckSV(dawgie.Version, dict):
    """looks like a state vector, found by name, but is not a dawgie.StateVector"""
    DAWGIE_IGNORE = True

    def __init__(self, real):
        dict.__init__(self)
        self._version_ = GOODVER
        self._nm = real.name()
        for k, v in real.items():
            self[k] = v

    def name(self):
        return self._nm

    def view(self, caller, visitor):
        return


class GhostV(dawgie.Value):
    def __init__(self):
        dawgie.Value.__init__(self)
        self._version_ = GOODVER

    def features(self):
        return []


class GhostSV(dawgie.StateVector):
    """a well-formed state vector that no algorithm of the engine produces"""

    def __init__(self):
        dawgie.StateVector.__init__(self)
        self._version_ = GOODVER
        self['gk'] = GhostV()

    def name(self):
        return 'ghostsv'

    def view(self, caller, visitor):
        return


class GhostEmptySV(dawgie.StateVector):
    def __init__(self):
        dawgie.StateVector.__init__(self)
        self._version_ = GOODVER

    def name(self):
        return 'ghostemptysv'

    def view(self, caller, visitor):
        return

'''

VALUE = '''
class %(cls)s(%(bases)s):
%(ignore)s    def __init__(self%(ctor)s):
%(init)s        self._version_ = %(ver)s
        self.payload = %(payload)s

    def features(self):
        return []

'''

SV = '''
class %(cls)s(%(bases)s):
%(ignore)s    def __init__(self):
%(init)s        self._version_ = %(ver)s
%(fill)s
%(name)s
    def view(self, caller, visitor):
        return

'''

ROUTINE = '''
class %(cls)s(%(bases)s):
%(ignore)s%(sched)s    def __init__(self):
%(init)s        self._version_ = %(ver)s
        self._svs = %(svs)s
%(methods)s
'''


def _ind(txt, n=4):
    return ''.join((' ' * n + l if l.strip() else l) for l in txt.splitlines(True))


def _cls_r(kind, ri):
    return 'R_%s_%d' % (kind, ri)


def _cls_s(kind, ri, si):
    return 'S_%s_%d_%d' % (kind, ri, si)


def _cls_v(kind, ri, si, vi):
    return 'V_%s_%d_%d_%d' % (kind, ri, si, vi)


def _ref_src(eng, ref):
    tname, kind, ri = ref['to'][0], ref['to'][1], ref['to'][2]
    si = ref['to'][3] if len(ref['to']) > 3 else 0
    vi = ref['to'][4] if len(ref['to']) > 4 else 0
    mod = '_c(%r)' % tname
    fac = '_m(%r).%s' % (tname, kind if ref['factory'] == 'func' else 'cf_' + kind)
    if ref['impl'] == 'real':
        impl = '%s.%s()' % (mod, _cls_r(kind, ri))
    elif ref['impl'] == 'ghost':
        impl = '%s.Ghost_%s()' % (mod, kind)
    elif ref['impl'] == 'duck':
        impl = '%s.Duck_%s_%d()' % (mod, kind, ri)
    else:
        home = ref['impl'].split(':', 1)[1]
        impl = '_c(%r).Twin_%s_%s_%d()' % (home, tname, kind, ri)
    tgt = task_of(eng, tname)['factories'][kind]['bot']['routines'][ri]
    if ref['impl'] == 'ghost':
        si = 0  # the ghost algorithm has exactly one state vector ('ghostsv') with one key ('gk')
    if ref['item'] == 'real':
        item = '_i.state_vectors()[%d]' % si
    elif ref['item'] == 'ghost':
        item = 'GhostSV()'
    elif ref['item'] == 'ghost_empty':
        item = 'GhostEmptySV()'
    else:
        item = 'DuckSV(_i.state_vectors()[%d])' % si
    if ref['feat'] == 'real' and ref['impl'] == 'ghost':
        feat = "'gk'"
    elif ref['feat'] == 'real':
        feat = repr(tgt['svs'][si]['values'][vi]['key']) if ref['kind'] == 'v' else "'-'"
    elif ref['feat'] == 'missing':
        feat = "'nokey'"
    else:
        feat = '7'
    ctor = {('alg', True): 'dawgie.ALG_REF', ('sv', True): 'dawgie.SV_REF', ('v', True): 'dawgie.V_REF',
            ('alg', False): 'X_ALG', ('sv', False): 'X_SV', ('v', False): 'X_V'}[(ref['kind'], ref['reftype'])]
    if ref['kind'] == 'alg':
        return '%s(%s, %s)' % (ctor, fac, impl)
    if ref['kind'] == 'sv':
        return '(lambda _i: %s(%s, _i, %s))(%s)' % (ctor, fac, item, impl)
    return '(lambda _i: %s(%s, _i, %s, %s))(%s)' % (ctor, fac, item, feat, impl)


def _value_src(cls, v):
    base = v['base']
    return VALUE % {
        'cls': cls,
        'bases': 'dawgie.Value' if base else 'dawgie.Version',
        'ignore': '',
        'ctor': ', need' if v['pickle'] == 'loads' else '',
        'init': '        dawgie.Value.__init__(self)\n' if base else '',
        'ver': 'GOODVER' if v['ver'] else 'BADVER',
        'payload': '_unpicklable()' if v['pickle'] == 'dumps' else 'None',
    }


def _sv_src(cls, kind, ri, si, s, twin=False):
    fill = ''.join('        self[%r] = %s(%s)\n' % (v['key'], _cls_v(kind, ri, si, vi),
                                                    '0' if v['pickle'] == 'loads' else '')
                   for vi, v in enumerate(s['values']))
    if s['name_impl']:
        name = '    def name(self):\n        return %r\n' % s['name']
    elif s['base'] and not twin:
        name = ''
    else:
        name = '    def name(self):\n        raise NotImplementedError()\n'
    return SV % {
        'cls': cls,
        'bases': 'dawgie.StateVector' if s['base'] else 'dawgie.Version, dict',
        'ignore': '',
        'init': '        dawgie.StateVector.__init__(self)\n' if s['base'] else '        dict.__init__(self)\n',
        'ver': 'GOODVER' if s['ver'] else 'BADVER',
        'fill': fill or '        pass\n',
        'name': name,
    }


def _routine_src(eng, cls, kind, ri, r, mode='real', svprefix=None, sched=()):
    """mode: real | duck (not a dawgie base) | twin (a proper class living in another module)"""
    base = r['base'] and mode != 'duck'
    dep = DEPS[kind]
    svs = '[%s]' % ', '.join('%s()' % ((svprefix or _cls_s)(kind, ri, si)) for si in range(len(r['svs'])))
    if not r['svs_list']:
        svs = 'tuple(%s)' % svs
    m = []
    if r['name_impl']:
        m.append('def name(self):\n    return %r\n' % r['name'])
    elif not base:
        m.append('def name(self):\n    raise NotImplementedError()\n')
    deps = '[%s]' % ', '.join(_ref_src(eng, x) for x in r['deps'])
    if not r['deps_list']:
        deps = 'tuple(%s)' % deps
    if mode != 'real':
        deps = '[]'
    if r['deps_impl']:
        m.append('def %s(self):\n    return %s\n' % (dep, deps))
    elif not base:
        m.append('def %s(self):\n    raise NotImplementedError()\n' % dep)
    fb = '[%s]' % ', '.join(_ref_src(eng, x) for x in r['feedback']) if mode == 'real' else '[]'
    if r['feedback'] or not base:
        m.append('def feedback(self):\n    return %s\n' % fb)
    if r['svs_impl']:
        m.append('def state_vectors(self):\n    return self._svs\n')
    elif not base:
        m.append('def state_vectors(self):\n    raise NotImplementedError()\n')
    if r['run']:
        m.append('def run(self, *args):\n    return\n')
    if not base:
        m.append('def sv_as_dict(self):\n    return {sv.name(): sv for sv in self.state_vectors()}\n')
    return ROUTINE % {
        'cls': cls,
        'bases': 'dawgie.' + ROUT_BASE[kind] if base else 'dawgie.Version',
        'ignore': '    DAWGIE_IGNORE = True\n' if mode != 'real' else '',
        'sched': ('    DAWGIE_SCHEDULE = [%s]\n' % ', '.join(sched)) if sched else '',
        'init': ('        dawgie.%s.__init__(self)\n' % ROUT_BASE[kind]) if base else '',
        'ver': 'GOODVER' if r['ver'] else 'BADVER',
        'svs': svs,
        'methods': '\n'.join(_ind(x) for x in m),
    }


GHOST = '''
class Ghost_%(kind)s(dawgie.%(base)s):
    """a well-formed %(base)s that the %(kind)s factory of this module does not offer"""
    DAWGIE_IGNORE = True

    def __init__(self):
        dawgie.%(base)s.__init__(self)
        self._version_ = GOODVER
        self._svs = [GhostSV()]

    def name(self):
        return 'ghostalg'

    def %(dep)s(self):
        return []

    def run(self, *args):
        return

    def state_vectors(self):
        return self._svs

'''

OLD_BOT = '''
class B_%(kind)s(dawgie.%(bot)s):
%(list)s

'''

DUCK_BOT = '''
class B_%(kind)s:
    """has every method of a dawgie.%(bot)s but does not inherit from it"""

    def __init__(self, name, *args):
        self._nm = name

    def _name(self):
        return self._nm

    def _runid(self):
        return -1

    def _target(self):
        return '__all__'

    def abort(self):
        return False

    def new_values(self, value=None):
        return []

    def routines(self):
        return self.list()

%(list)s

'''

CALLABLE = '''
class _CF_%(kind)s:
    """a callable object standing in for the %(kind)s factory (not a function, not a method)"""

    def __call__(self, *args, **kwds):
        return %(kind)s(*args, **kwds)


cf_%(kind)s = _CF_%(kind)s()
'''


def _dflt_src(d):
    if d is None:
        return ''
    if d[0] == 'i':
        return ' = %d' % d[1]
    if d[0] == 's':
        return ' = %r' % d[1]
    return ' = None'


def _param_src(p):
    ann = {'str': ': str', 'int': ': int', None: '', 'other': ': float'}[p[2]]
    return p[0] + ann + _dflt_src(p[1])


def _factory_src(eng, kind, f, style):
    sig = ', '.join(_param_src(p) for p in f['params'])
    names = [p[0] for p in f['params']]
    if f['raises']:
        body = "    raise RuntimeError('broken factory')\n"
    elif kind == 'events':
        body = '    return [%s]\n' % ', '.join('_ev%d()' % i for i in range(len(f['events'])))
    else:
        args = []
        for a in BOT_ARGS[kind]:
            if a == 'prefix':
                fwd = f['bot']['fwd']
                args.append('prefix' if ('prefix' in names and fwd) else "'fixedname'")
            else:
                args.append(a if a in names else BOT_DEFAULT[a])
        if style == 'base' and f['bot']['base'] and f['bot']['list']:
            classes = ', '.join('_b().' + _cls_r(kind, ri) for ri in range(len(f['bot']['routines'])))
            body = '    return dawgie.base.%s(%s, [%s])\n' % (BOT_BASE[kind], ', '.join(args), classes)
        else:
            body = '    return _b().B_%s(%s)\n' % (kind, ', '.join(args))
    return '\ndef %s(%s):\n%s\n' % (kind, sig, body)


MOMENT_SRC = {
    'boot': {'N': 'None', 'T': 'True', 'F': 'False'},
    'day': {'N': 'None', 'ok': 'datetime.date(2031, 3, 14)', 'bad': "'2031-03-14'"},
    'dom': {'N': 'None', 'ok': '14', 'bad': "'14'"},
    'dow': {'N': 'None', 'ok': '2', 'bad': '2.5'},
    'time': {'N': 'None', 'ok': 'datetime.time(3, 0, 0)', 'bad': "'03:00'"},
}


def _event_src(i, t, ev):
    kind, ri = ev['to'][0], ev['to'][1]
    m = ev['moment']
    vals = {k: MOMENT_SRC[k][m[k]] for k in MOMENT_SRC}
    fac, cls = kind, '_b().' + _cls_r(kind, ri)
    if len(ev['to']) > 2 and ev['to'][2] != t['name']:
        fac, cls = '_m(%r).%s' % (ev['to'][2], kind), '_c(%r).%s' % (ev['to'][2], _cls_r(kind, ri))
    if ev['via'] == 'schedule' and ev['isevent']:
        body = 'dawgie.schedule(%s, %s(), boot=%s, day=%s, dom=%s, dow=%s, time=%s)' % (
            fac, cls, vals['boot'], vals['day'], vals['dom'], vals['dow'], vals['time'])
    else:
        body = '%s(dawgie.ALG_REF(%s, %s()), dawgie.MOMENT(%s, %s, %s, %s, %s))' % (
            'dawgie.EVENT' if ev['isevent'] else 'X_EVENT', fac, cls,
            vals['boot'], vals['day'], vals['dom'], vals['dow'], vals['time'])
    return '\ndef _ev%d():\n    return %s\n' % (i, body)


def _needs(eng):
    """(target task, kind, ri) -> set of extra classes other modules ask for"""
    duck, twin, ghost, call = set(), set(), set(), set()
    for t in eng['tasks']:
        for kind in KINDS:
            f = t['factories'].get(kind)
            if not f:
                continue
            for r in f['bot']['routines']:
                for ref in r['deps'] + r['feedback']:
                    to = (ref['to'][0], ref['to'][1], ref['to'][2])
                    if ref['impl'] == 'duck':
                        duck.add(to)
                    elif ref['impl'].startswith('twin:'):
                        twin.add((ref['impl'].split(':', 1)[1],) + to)
                    elif ref['impl'] == 'ghost':
                        ghost.add(to[:2])
                    if ref['factory'] == 'callable':
                        call.add(to[:2])
    return duck, twin, ghost, call


def module_source(root, eng, task):
    """{relative file name: source}: one file (`__init__.py`) or, with layout 'split', the factories
    in `__init__.py` and every class in `bot.py` (the layout of the engines shipped with dawgie)"""
    split = eng.get('layout', 'flat') == 'split'
    head = PRELUDE_HEAD % {'root': root, 'task': task, 'sub': '.bot' if split else ''}
    classes, factories = _module_sections(eng, task)
    if split:
        return {'__init__.py': head + factories, 'bot.py': head + PRELUDE_CLASSES + classes}
    return {'__init__.py': head + PRELUDE_CLASSES + classes + factories}


def _module_sections(eng, task):
    t = task_of(eng, task)
    style = eng.get('style', 'old')
    duck, twin, ghost, call = _needs(eng)
    out = []
    for kind in KINDS:
        f = t['factories'].get(kind)
        if not f:
            continue
        bot = f['bot']
        for ri, r in enumerate(bot['routines']):
            for si, s in enumerate(r['svs']):
                for vi, v in enumerate(s['values']):
                    out.append(_value_src(_cls_v(kind, ri, si, vi), v))
                out.append(_sv_src(_cls_s(kind, ri, si), kind, ri, si, s))
            sched = []
            if style == 'auto':
                for ev in (t['factories'].get('events') or {'events': []})['events']:
                    if ev['to'][0] == kind and ev['to'][1] == ri:
                        m = ev['moment']
                        sched.append('dawgie.EVENT(None, dawgie.MOMENT(%s))' % ', '.join(
                            MOMENT_SRC[k][m[k]] for k in ('boot', 'day', 'dom', 'dow', 'time')))
            out.append(_routine_src(eng, _cls_r(kind, ri), kind, ri, r, sched=sched))
            if (task, kind, ri) in duck:
                out.append(_routine_src(eng, 'Duck_%s_%d' % (kind, ri), kind, ri, r, mode='duck'))
        if style == 'auto':
            continue
        members = ', '.join('%s()' % _cls_r(kind, ri) for ri in range(len(bot['routines'])))
        lst = '    def list(self):\n        return [%s]\n' % members
        if not bot['base']:
            if not bot['list']:
                lst = '    def list(self):\n        raise NotImplementedError()\n'
            out.append(DUCK_BOT % {'kind': kind, 'bot': BOT_BASE[kind], 'list': lst})
        elif style == 'old' or not bot['list']:
            out.append(OLD_BOT % {'kind': kind, 'bot': BOT_BASE[kind],
                                  'list': lst if bot['list'] else '    pass\n'})
    # classes that other modules want to find here
    for (home, tt, kind, ri) in sorted(twin):
        if home == task:
            tr = task_of(eng, tt)['factories'][kind]['bot']['routines'][ri]
            pre = 'Tw_%s_' % tt
            for si, s in enumerate(tr['svs']):
                for vi, v in enumerate(s['values']):
                    out.append(_value_src(pre + _cls_v(kind, ri, si, vi), v))
                src = _sv_src(pre + _cls_s(kind, ri, si), kind, ri, si, s, twin=True)
                out.append(src.replace('= V_', '= %sV_' % pre))
            out.append(_routine_src(eng, 'Twin_%s_%s_%d' % (tt, kind, ri), kind, ri, tr, mode='twin',
                                    svprefix=lambda k, r_, s_, pre=pre: pre + _cls_s(k, r_, s_)))
    for (tt, kind) in sorted(ghost):
        if tt == task:
            out.append(GHOST % {'kind': kind, 'base': ROUT_BASE[kind], 'dep': DEPS[kind]})
    classes, out = ''.join(out), []
    for kind in ALLKINDS:
        f = t['factories'].get(kind)
        if not f:
            continue
        if style != 'auto':
            if kind == 'events':
                for i, ev in enumerate(f['events']):
                    out.append(_event_src(i, t, ev))
            out.append(_factory_src(eng, kind, f, style))
        if (task, kind) in call:
            out.append(CALLABLE % {'kind': kind})
    return classes, ''.join(out)


# ------------------------------------------------------------------ descriptor -> abstract Pkg (flags)
def _nreq(params):
    return sum(1 for p in params if p[1] is None)


def call_ok(f, nargs):
    """does calling the factory with `nargs` positional arguments return (not raise)?"""
    return (not f['raises']) and _nreq(f['params']) <= nargs <= len(f['params'])


def resolve_flags(eng, ref):
    """What rule_11's `_resolve` meets for this reference: (raises, algFound, [(svFound, featFound)]).
    Written against the descriptor only (names, shapes), never against the code under test."""
    tname, kind, ri = ref['to'][0], ref['to'][1], ref['to'][2]
    si = ref['to'][3] if len(ref['to']) > 3 else 0
    vi = ref['to'][4] if len(ref['to']) > 4 else 0
    f = task_of(eng, tname)['factories'][kind]
    bot = f['bot']
    tgt = bot['routines'][ri]
    if not call_ok(f, 1) or not bot['list']:
        return True, False, []
    # the reference's own instance
    if ref['impl'] == 'ghost':
        iname, iname_ok, isvs, isvs_ok = 'ghostalg', True, [mk_sv('ghostsv', ['gk'])], True
        si = vi = 0
    else:
        iname, iname_ok, isvs, isvs_ok = tgt['name'], tgt['name_impl'], tgt['svs'], tgt['svs_impl']
    # expansion into value references (dawgie.util.as_vref)
    def expand():
        """-> list of (item sv descriptor name, name_ok, feat) or raises"""
        if not ref['reftype']:
            return []
        if ref['kind'] == 'alg':
            if not isvs_ok:
                raise LookupError
            return [(s['name'], s['name_impl'], v['key']) for s in isvs for v in s['values']]
        if ref['item'] in ('ghost', 'ghost_empty'):
            item = mk_sv('ghostsv', ['gk']) if ref['item'] == 'ghost' else mk_sv('ghostemptysv', [])
        else:
            if not isvs_ok:
                raise LookupError  # the lambda building the reference already failed
            item = isvs[si]
            if ref['item'] == 'duck' and not item['name_impl']:
                raise LookupError
        if ref['kind'] == 'sv':
            return [(item['name'], item['name_impl'], v['key']) for v in item['values']]
        feat = {'real': None, 'missing': 'nokey', 'int': 7}[ref['feat']]
        if feat is None:
            feat = isvs[si]['values'][vi]['key'] if ref['impl'] != 'ghost' else 'gk'
        return [(item['name'], item['name_impl'], feat)]

    found, vrefs = False, []
    for alg in bot['routines']:
        if not alg['name_impl'] or not iname_ok:
            return True, False, []
        if alg['name'] != iname:
            continue
        found = True
        try:
            ex = expand()
        except LookupError:
            return True, False, []
        for (svn, svn_ok, feat) in ex:
            if not alg['svs_impl']:
                return True, False, []
            svfound, featfound = False, True
            for s in alg['svs']:
                if not svn_ok or not s['name_impl']:
                    return True, False, []
                if s['name'] == svn:
                    svfound = True
                    featfound = any(v['key'] == feat for v in s['values'])
            # duplicates of the same state-vector name are outside the descriptor space
            vrefs.append((svfound, featfound if svfound else False))
    return False, found, vrefs


def ref_builds(eng, ref):
    """does the expression that builds the reference itself evaluate? (it instantiates the
    target class and, for SV/V references, asks it for its state vectors)"""
    tname, kind, ri = ref['to'][0], ref['to'][1], ref['to'][2]
    tgt = task_of(eng, tname)['factories'][kind]['bot']['routines'][ri]
    if ref['kind'] != 'alg' and ref['item'] in ('real', 'duck') and ref['impl'] != 'ghost':
        if not tgt['svs_impl']:
            return False
        if ref['item'] == 'duck' and not tgt['svs'][ref['to'][3]]['name_impl']:
            return False
    return True


def impl_under_factory(eng, root, ref):
    tname = ref['to'][0]
    home = ref['impl'].split(':', 1)[1] if ref['impl'].startswith('twin:') else tname
    sub = '.bot' if eng.get('layout', 'flat') == 'split' else ''
    return ('%s.%s%s' % (root, home, sub)).startswith('%s.%s' % (root, tname))


B = common.sx


def _sx_str(s):
    """strings travel as lists of code points (names may contain anything)"""
    return [ord(c) for c in s]


def ref_flags(eng, root, ref):
    raises, found, vrefs = resolve_flags(eng, ref)
    tgt = task_of(eng, ref['to'][0])['factories'][ref['to'][1]]['bot']['routines'][ref['to'][2]]
    # the reference carries instances of the target's own classes: they are what the target is
    impl_ok = ref['impl'] == 'ghost' or (ref['impl'] != 'duck' and tgt['base'])
    item_ok = ref['item'] != 'duck'
    if ref['kind'] != 'alg' and ref['item'] == 'real' and ref['impl'] != 'ghost' and tgt['svs']:
        item_ok = tgt['svs'][ref['to'][3]]['base']
    return ['ref', ref['kind'], ref['reftype'], ref['factory'] == 'func', impl_ok,
            item_ok, ref['feat'] != 'int', impl_under_factory(eng, root, ref),
            raises, found, [[a, b] for a, b in vrefs]]


def routine_flags(eng, root, r):
    deps_build = all(ref_builds(eng, x) for x in r['deps'])
    fb_build = all(ref_builds(eng, x) for x in r['feedback'])
    return ['routine', _sx_str(r['name']), r['name_impl'], r['base'], r['ver'], r['run'],
            r['deps_impl'] and deps_build, r['deps_list'], r['svs_impl'], r['svs_list'], fb_build,
            [ref_flags(eng, root, x) for x in r['deps']],
            [ref_flags(eng, root, x) for x in r['feedback']],
            [['sv', _sx_str(s['name']), s['name_impl'], s['base'], s['ver'],
              [['val', _sx_str(v['key']), v['base'], v['ver'], v['pickle'] == 'ok'] for v in s['values']]]
             for s in r['svs']]]


def _dflt_flag(d):
    if d is None:
        return 'empty'
    if d[0] == 'i':
        return ['int', d[1]]
    if d[0] == 's':
        return ['str', _sx_str(d[1])]
    return 'other'


def factory_flags(eng, root, kind, f):
    params = [[_dflt_flag(p[1]), {'str': 'str', 'int': 'int', None: 'none', 'other': 'other'}[p[2]]]
              for p in f['params']]
    if kind == 'events':
        evs, raises = [], f['raises']
        for ev in f['events']:
            m = ev['moment']
            # `dawgie.schedule` refuses the moment: the events factory raises as a whole
            raises = raises or (ev['via'] == 'schedule' and ev['isevent'] and not schedule_accepts(m))
            evs.append(['event', ev['isevent'], m['boot'], m['day'], m['dom'], m['dow'], m['time']])
        return ['factory', params, raises, ['events', evs]]
    b = f['bot']
    return ['factory', params, f['raises'],
            ['bot', b['base'], b['list'], [routine_flags(eng, root, r) for r in b['routines']]]]


def schedule_accepts(m):
    """`dawgie.schedule` raises ValueError for what it considers a malformed moment (the events
    factory then raises as a whole)"""
    nd = [m['boot'] == 'N', m['day'] == 'N', m['dom'] == 'N', m['dow'] == 'N']
    if sum(nd) != 3:
        return False
    if m['day'] == 'bad' or m['dom'] == 'bad' or m['dow'] == 'bad':
        return False
    if m['boot'] != 'T' and m['time'] == 'bad':
        return False
    return True


def pkg_sx(eng, root, task):
    t = task_of(eng, task)
    out = []
    for kind in ALLKINDS:
        f = t['factories'].get(kind)
        out.append('N' if f is None else factory_flags(eng, root, kind, f))
    return ['pkg'] + out


# ------------------------------------------------------------------ the real code
RULES = ['rule_%02d' % i for i in range(1, 12)]
_COUNTER = [0]


@contextlib.contextmanager
def quiet():
    prev = logging.root.manager.disable
    logging.disable(logging.CRITICAL)
    with warnings.catch_warnings():
        warnings.simplefilter('ignore')
        try:
            yield
        finally:
            logging.disable(prev)


class Loaded:
    """One engine written to a fresh temp dir under a fresh top-level package name."""

    def __init__(self, eng, root=None):
        import dawgie.context
        import dawgie.pl.scan

        _COUNTER[0] += 1
        self.eng = eng
        self.root = root or 'vae%d' % _COUNTER[0]
        self.base = tempfile.mkdtemp(prefix='c16_')
        self.pdir = os.path.join(self.base, self.root)
        os.makedirs(self.pdir)
        with open(os.path.join(self.pdir, '__init__.py'), 'w') as f:
            f.write('')
        for t in eng['tasks']:
            os.makedirs(os.path.join(self.pdir, t['name']))
            for fn, src in module_source(self.root, eng, t['name']).items():
                with open(os.path.join(self.pdir, t['name'], fn), 'w') as f:
                    f.write(src)
        self._saved = (dawgie.context.ae_base_package, dawgie.context.ae_base_path)
        dawgie.context.ae_base_package = self.root
        dawgie.context.ae_base_path = self.pdir
        sys.path.insert(0, self.base)
        sys.dont_write_bytecode = True
        dawgie.pl.scan.REGISTRY.clear()
        dawgie.pl.scan.IGNORE.clear()

    def close(self):
        import dawgie.context
        import dawgie.pl.scan

        dawgie.pl.scan.reset(self.root)
        for k in [k for k in sys.modules if k == self.root or k.startswith(self.root + '.')]:
            del sys.modules[k]
        if self.base in sys.path:
            sys.path.remove(self.base)
        dawgie.context.ae_base_package, dawgie.context.ae_base_path = self._saved
        shutil.rmtree(self.base, ignore_errors=True)

    def __enter__(self):
        return self

    def __exit__(self, *a):
        self.close()

    # -- the gate
    def gate(self, tasks=None):
        """Runs the real `_scan` (as `main` does when no task list is given) and the real `_verify`;
        returns (passed, {task: {rule: bool}}, scanned task list) with the per-rule results as `_verify` prints them."""
        import dawgie.tools.compliant as compliant

        with quiet():
            scanned = compliant._scan()
            buf = io.StringIO()
            with contextlib.redirect_stdout(buf):
                passed = compliant._verify(scanned if tasks is None else tasks, False, True)
        per, cur = {}, None
        for line in buf.getvalue().splitlines():
            m = re.match(r'Verifying (\S+)$', line)
            if m:
                cur = m.group(1)
                per[cur] = {}
                continue
            m = re.match(r'   (rule_\d+): (True|False)$', line)
            if m and cur is not None:
                per[cur][m.group(1)] = m.group(2) == 'True'
        return bool(passed), per, scanned

    # -- the task graph and the schedule
    def build(self):
        """real scan -> real dag.Construct -> real schedule.build + periodics (db and reactor faked).
        Returns None or the exception text."""
        import dawgie
        import dawgie.context
        import dawgie.db
        import dawgie.pl.dag as dag
        import dawgie.pl.scan as scan
        import dawgie.pl.schedule as schedule
        import dawgie.pl.version as version

        def graph(dot, roots, name):
            for root in roots:
                root.graph(dot)
            return b''

        saved = (dag.Construct.graph, dawgie.db.targets, schedule.twisted)
        calls = []
        dag.Construct.graph = staticmethod(graph)
        dawgie.db.targets = lambda: ['T1', 'T2']
        schedule.twisted = types.SimpleNamespace(internet=types.SimpleNamespace(
            reactor=types.SimpleNamespace(callLater=lambda *a, **k: calls.append(a[0]))))
        dawgie.context.git_rev = 'verif'
        schedule.que, schedule.per, schedule.booted = [], [], []
        schedule.pipeline_paused = False
        try:
            with quiet():
                facs = scan.for_factories(self.pdir, self.root)
                current = version.current(
                    facs[dawgie.Factories.analysis] + facs[dawgie.Factories.regress]
                    + facs[dawgie.Factories.task])
                # pass 1: every version is new -> everything is organised into the queue
                schedule.build(facs, current, ({}, {}, {}, {}))
                del schedule.per[:]
                schedule.periodics(facs[dawgie.Factories.events])
                info = {'nodes': sorted(schedule.ae._flat), 'que': sorted(n.tag for n in schedule.que),
                        'per': sorted(n.tag for n in schedule.per), 'timers': len(calls)}
                # pass 2: nothing is new -> the queue stays empty and `periodics/defer` reaches
                # `_delay` for every event
                schedule.que, schedule.per, schedule.booted = [], [], []
                known = ({}, {k: [v] for k, v in current[0].items()}, {k: [v] for k, v in current[1].items()},
                         {k: [v] for k, v in current[2].items()})
                schedule.build(facs, current, known)
                del schedule.per[:]
                schedule.periodics(facs[dawgie.Factories.events])
                info['que2'] = sorted(n.tag for n in schedule.que)
                info['timers'] = len(calls)
            return None, info
        except Exception as e:  # pylint: disable=broad-except
            return '%s: %s' % (type(e).__name__, e), {}
        finally:
            dag.Construct.graph, dawgie.db.targets, schedule.twisted = saved
            schedule.que, schedule.per, schedule.booted = [], [], []
            schedule.ae = None


def deprecated_scan(eng):
    """does the scanner fall back to the deprecated factory/bot pattern for this engine?  (one class
    deriving from dawgie.Task/Analysis/Regress anywhere switches the whole engine)"""
    if eng.get('style', 'old') == 'auto':
        return False
    if eng.get('style', 'old') == 'old':
        return any(t['factories'].get(k) and t['factories'][k]['bot']['base']
                   for t in eng['tasks'] for k in KINDS)
    return any(t['factories'].get(k) and t['factories'][k]['bot']['base']
               and not t['factories'][k]['bot']['list'] for t in eng['tasks'] for k in KINDS)


def visible(eng, task):
    """is the package seen by `pl.scan.for_factories`?  Deprecated pattern: every directory whose
    module offers a factory.  Registry pattern: only modules in which a class deriving from
    dawgie.Algorithm/Analyzer/Regression was defined (others are silently not part of the engine)."""
    t = task_of(eng, task)
    if deprecated_scan(eng):
        return True
    return any(r['base'] for k in KINDS if t['factories'].get(k)
               for r in t['factories'][k]['bot']['routines'])
