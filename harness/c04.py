"""C04 — see harness/sched_run.py (shared scheduler histories, monitors and correspondence)."""
from . import sched_run

LEAN_TARGETS = ['DawgieVerif.Model.SchedIO']
TRUSTED = sched_run.TRUSTED
MANIFEST = dict(
    text='Lean theorems over Model/Sched.lean, for every history: prune_keep_is_live / prune_is_model (Props/C04Gen: the filter of schedule._prune regenerated from its AST on every run is Node.live of the model), que_exact (the queue holds exactly the nodes with pending work, executing work or running status), idle_views (nothing pending and nothing in flight => queue, view_todo and view_doing are empty), runnable_released (a pending unit that is not itself executing and whose ancestors are idle is released by the next dispatch), no_deadlock (acyclic graph, something pending, nothing executing => the next dispatch releases something), quiesces (acyclic feedback-free graph of depth R, any conforming history, workers that always answer with ANY outcome and ANY values reported new: after answering what is in flight and R+1 further rounds of dispatch+answers nothing is pending, executing, in flight or queued; proved by induction on rank). Invariant Inv (6 clauses) proved by induction over arbitrary op lists. Tied by correspondence; the monitor checks the real que/view_todo/view_doing at every idle state, every runnable unit at every dispatch, and drives every history to quiescence with always-answering workers.',
    note='quiesces assumes no feedback references (a fed-back new value legitimately re-triggers its consumer for ever) and that rounds are "tick, then every unit in flight answered"; other fair schedules are covered by no_deadlock + idle_views. The harness also drives every history to quiescence on the real code. Waiter satisfaction is C12. Trusted base as C01.',
    technique='Lean 4 proof: 6-clause invariant by induction over operation histories, well-founded minimal-element argument + differential correspondence',
    design='7/C04',
)
WANT = {'C04'}


def run(ctx, res):
    sched_run.run_all(ctx, res, WANT, 'C04')
    # the same clauses on the end-to-end path: real farm messages, the real worker (pl.worker.cluster.execute),
    # the real store and run ids from the real db.next(); REAL overlaps of executions
    from . import c02_e2e, c05_e2e
    c02_e2e.run_monitors(ctx, res, WANT)
    # ... and with runs that fail, report invalid data or kill the worker's run() (sys.exit, KeyboardInterrupt)
    c05_e2e.run(ctx, res, want=tuple(WANT))


def replay(rep, res):
    if ':e2e-' in str(rep.get('sig', '')):
        from . import c02_e2e, c05_e2e
        inp = rep.get('input', rep)
        if 'failures' in inp.get('scenario', {}) or inp.get('kind') == 'e2e-fail':
            c05_e2e.replay(rep, res, want=tuple(WANT))
        else:
            c02_e2e.replay_monitors(rep, res, WANT)
    else:
        sched_run.replay_case(rep, res, WANT)
